// Package jsonx is an order-preserving JSON reader that reports duplicate keys, with helpers
// to compare catalogs as keyed collections.
package jsonx

import (
	"bytes"
	"encoding/json"
	"fmt"
	"sort"
	"strings"
	"unicode/utf8"
)

type Kind int

const (
	Null Kind = iota
	Bool
	Num
	Str
	Arr
	Obj
)

// V is a JSON value. Objects keep their keys in source order.
type V struct {
	Kind Kind
	S    string // string value, number literal, "true"/"false"
	A    []*V
	Keys []string
	Vals []*V
}

// Parse parses strictly: valid UTF-8, valid JSON, and returns the paths of duplicate keys.
func Parse(b []byte) (*V, []string, error) {
	if !utf8.Valid(b) {
		return nil, nil, fmt.Errorf("not valid UTF-8")
	}
	dec := json.NewDecoder(bytes.NewReader(b))
	dec.UseNumber()
	var dups []string
	v, err := parseValue(dec, "$", &dups)
	if err != nil {
		return nil, nil, err
	}
	if _, err := dec.Token(); err == nil {
		return nil, nil, fmt.Errorf("trailing data after the JSON value")
	}
	return v, dups, nil
}

func parseValue(dec *json.Decoder, path string, dups *[]string) (*V, error) {
	t, err := dec.Token()
	if err != nil {
		return nil, err
	}
	switch x := t.(type) {
	case json.Delim:
		switch x {
		case '{':
			o := &V{Kind: Obj}
			seen := map[string]bool{}
			for dec.More() {
				kt, err := dec.Token()
				if err != nil {
					return nil, err
				}
				k, ok := kt.(string)
				if !ok {
					return nil, fmt.Errorf("non-string key at %s", path)
				}
				if seen[k] {
					*dups = append(*dups, path+"."+k)
				}
				seen[k] = true
				v, err := parseValue(dec, path+"."+k, dups)
				if err != nil {
					return nil, err
				}
				o.Keys = append(o.Keys, k)
				o.Vals = append(o.Vals, v)
			}
			if _, err := dec.Token(); err != nil {
				return nil, err
			}
			return o, nil
		case '[':
			a := &V{Kind: Arr}
			i := 0
			for dec.More() {
				v, err := parseValue(dec, fmt.Sprintf("%s[%d]", path, i), dups)
				if err != nil {
					return nil, err
				}
				a.A = append(a.A, v)
				i++
			}
			if _, err := dec.Token(); err != nil {
				return nil, err
			}
			return a, nil
		}
		return nil, fmt.Errorf("unexpected delimiter %v", x)
	case string:
		return &V{Kind: Str, S: x}, nil
	case json.Number:
		return &V{Kind: Num, S: x.String()}, nil
	case bool:
		if x {
			return &V{Kind: Bool, S: "true"}, nil
		}
		return &V{Kind: Bool, S: "false"}, nil
	case nil:
		return &V{Kind: Null}, nil
	}
	return nil, fmt.Errorf("unexpected token %v", t)
}

// Get returns the value under key of an object (first occurrence), or nil.
func (v *V) Get(k string) *V {
	if v == nil || v.Kind != Obj {
		return nil
	}
	for i, kk := range v.Keys {
		if kk == k {
			return v.Vals[i]
		}
	}
	return nil
}

// Path walks object keys.
func (v *V) Path(keys ...string) *V {
	for _, k := range keys {
		v = v.Get(k)
		if v == nil {
			return nil
		}
	}
	return v
}

func (v *V) Str() string {
	if v == nil {
		return ""
	}
	return v.S
}

// Canon renders the value canonically (object keys in source order).
func (v *V) Canon() string {
	var b strings.Builder
	v.canon(&b)
	return b.String()
}

func (v *V) canon(b *strings.Builder) {
	if v == nil {
		b.WriteString("<absent>")
		return
	}
	switch v.Kind {
	case Null:
		b.WriteString("null")
	case Bool, Num:
		b.WriteString(v.S)
	case Str:
		q, _ := json.Marshal(v.S)
		b.Write(q)
	case Arr:
		b.WriteByte('[')
		for i, x := range v.A {
			if i > 0 {
				b.WriteByte(',')
			}
			x.canon(b)
		}
		b.WriteByte(']')
	case Obj:
		b.WriteByte('{')
		for i, k := range v.Keys {
			if i > 0 {
				b.WriteByte(',')
			}
			q, _ := json.Marshal(k)
			b.Write(q)
			b.WriteByte(':')
			v.Vals[i].canon(b)
		}
		b.WriteByte('}')
	}
}

// Equal compares two values structurally (object key order matters).
func Equal(a, b *V) bool { return a.Canon() == b.Canon() }

// Collections of a catalog that are keyed by name.
var Collections = []string{"tags", "servers", "userTypes", "userEnums", "interactions"}

// Entries flattens a catalog into "collection/key" -> canonical entry JSON, plus the scalar
// top-level fields under "top/<field>". With unorderedTagLists the interaction id lists inside
// tag entries are sorted (their order follows declaration order by design).
func Entries(cat *V, unorderedTagLists bool) (map[string]string, []string) {
	out := map[string]string{}
	var order []string
	if cat == nil || cat.Kind != Obj {
		return out, nil
	}
	for i, k := range cat.Keys {
		v := cat.Vals[i]
		isColl := false
		for _, c := range Collections {
			if c == k {
				isColl = true
			}
		}
		if isColl && v.Kind == Obj {
			for j, ek := range v.Keys {
				e := v.Vals[j]
				if k == "tags" && unorderedTagLists {
					e = sortTagLists(e)
				}
				key := k + "/" + ek
				if _, dup := out[key]; dup {
					key += "#dup"
				}
				out[key] = e.Canon()
				order = append(order, key)
			}
			continue
		}
		out["top/"+k] = v.Canon()
		order = append(order, "top/"+k)
	}
	return out, order
}

func sortTagLists(tag *V) *V {
	if tag.Kind != Obj {
		return tag
	}
	c := &V{Kind: Obj}
	for i, k := range tag.Keys {
		v := tag.Vals[i]
		if k == "interactionGroups" && v.Kind == Arr {
			nv := &V{Kind: Arr}
			for _, g := range v.A {
				ng := &V{Kind: Obj}
				for j, gk := range g.Keys {
					gv := g.Vals[j]
					if gk == "interactions" && gv.Kind == Arr {
						s := &V{Kind: Arr, A: append([]*V(nil), gv.A...)}
						sort.Slice(s.A, func(a, b int) bool { return s.A[a].Canon() < s.A[b].Canon() })
						gv = s
					}
					ng.Keys = append(ng.Keys, gk)
					ng.Vals = append(ng.Vals, gv)
				}
				nv.A = append(nv.A, ng)
			}
			v = nv
		}
		c.Keys = append(c.Keys, k)
		c.Vals = append(c.Vals, v)
	}
	return c
}

// DiffEntries describes how two entry maps differ ("" when equal).
func DiffEntries(a, b map[string]string) string {
	var ds []string
	for k, va := range a {
		vb, ok := b[k]
		if !ok {
			ds = append(ds, "only in first: "+k)
		} else if va != vb {
			ds = append(ds, "differs: "+k+" "+short(va, vb))
		}
	}
	for k := range b {
		if _, ok := a[k]; !ok {
			ds = append(ds, "only in second: "+k)
		}
	}
	sort.Strings(ds)
	if len(ds) > 4 {
		ds = append(ds[:4], fmt.Sprintf("… %d more", len(ds)-4))
	}
	return strings.Join(ds, "; ")
}

func short(a, b string) string {
	i := 0
	for i < len(a) && i < len(b) && a[i] == b[i] {
		i++
	}
	lo := i - 30
	if lo < 0 {
		lo = 0
	}
	cut := func(s string) string {
		if lo > len(s) {
			return ""
		}
		s = s[lo:]
		if len(s) > 90 {
			s = s[:90] + "…"
		}
		return s
	}
	return "[…" + cut(a) + "] vs […" + cut(b) + "]"
}
