package checks

import (
	"verif/internal/doc"
	"verif/internal/drv"
	"verif/internal/fw"
)

// docSets enumerates block selections: every single block, every unordered pair (quick), plus
// every unordered triple (thorough), each closed under the names it needs.
func docSets(thorough bool, f func(name string, blocks []doc.Block)) {
	pool := doc.Pool()
	for i := range pool {
		f(pool[i].Name, doc.Closure([]doc.Block{pool[i]}))
	}
	for i := range pool {
		for j := i + 1; j < len(pool); j++ {
			f(pool[i].Name+"+"+pool[j].Name, doc.Closure([]doc.Block{pool[i], pool[j]}))
		}
	}
	if thorough {
		for i := range pool {
			for j := i + 1; j < len(pool); j++ {
				for k := j + 1; k < len(pool); k++ {
					f(pool[i].Name+"+"+pool[j].Name+"+"+pool[k].Name, doc.Closure([]doc.Block{pool[i], pool[j], pool[k]}))
				}
			}
		}
	}
}

// refcatHook judges, over the documents of E-REFCAT (fixtures and pool selections), the aspects
// the reference compiler owns for check id (set in the verif build, refcat.go).
var refcatHook func(c *fw.Ctx, id string)

// docTap, when set, receives every document a generator has just run - instead of the generator's
// own judgement. It lets a check judge, with the sentence of ITS property, the documents another
// check's generator builds (refcatCross).
var docTap func(label, text string, o drv.Outcome)

// refcatAlso judges one more document (already run) with the reference compiler's view of check id.
var refcatAlso func(c *fw.Ctx, id, label, text string, o drv.Outcome)

// refcatCross runs the generators gens under a tap that judges the aspects of check id.
var refcatCross func(c *fw.Ctx, id string, gens ...func(c *fw.Ctx))

func run1(text string) drv.Outcome { return drv.RunMem("root.jst", text, drv.Options{FixedSeed: true}) }

// sameResult compares two outcomes of what should be the same document: same verdict and, when
// accepted, byte-identical JSON. Crashes are C01's business and are not judged here.
func sameResult(a, b drv.Outcome) (judged bool, same bool) {
	if a.Crashed() || b.Crashed() {
		return false, true
	}
	if a.Kind != b.Kind {
		return true, false
	}
	if a.OK() {
		return true, a.JSON == b.JSON
	}
	return true, true
}

func clipS(s string, n int) string {
	if len(s) > n {
		return s[:n] + "…"
	}
	return s
}

// firstDiff returns a short description of where two strings start to differ.
func firstDiff(a, b string) string {
	i := 0
	for i < len(a) && i < len(b) && a[i] == b[i] {
		i++
	}
	lo := i - 40
	if lo < 0 {
		lo = 0
	}
	return "…" + clipS(a[lo:], 120) + "  VS  …" + clipS(b[lo:], 120)
}

// runPath runs a project from a root file path that already exists on disk.
func runPath(root string, opt drv.Options) drv.Outcome { return drv.RunPath(root, opt) }

// ioFaultHook explores file-system answers (set in the verifio build: the library's os calls are
// routed through the vio shim).
var ioFaultHook func(c *fw.Ctx, checkID string)
