//go:build verif

package checks

import (
	"fmt"
	"os"
	"path/filepath"
	"regexp"
	"sort"
	"strconv"
	"strings"
	"time"

	"verif/internal/drv"
	"verif/internal/fw"
)

func init() {
	fw.Register(&fw.Check{
		ID: "C02", Level: "model_checking", Prepare: prepareStreams,
		Rule:   "every REJECTED run of the shared streams (corpus one-line-edit neighbourhood, context-state representatives, all sequences of <= 2 / 3 directive variants - each also under CRLF and CR line ends -, paste graphs, include scenarios and include graphs, option sets, names; thorough: the scanner-state x token product) and of dedicated include structures (chain of depth 2 and 3, two files from one place, two INCLUDEs on different lines of one file, the same file included from two places) x fault kind (scanner error, context error, duplicate name, schema error, dangling reference, missing path) x faulty file x every assignment of a line-end convention {LF, CRLF, CR} to each file: 0 <= index <= length of the located file; line = 1 + number of line ends before the index and quote = that source line left-trimmed with the documented 200-byte truncation (strict on files with one line-end convention, range-only on mixed files); a fault located outside the root file carries a trace whose first entry is the located file and line and whose every further entry names a file and the line on which the INCLUDE of the previous entry's file really is, ending in the root file; non-trivial = rejected run; distinct = distinct rejected inputs ; every single-fault project of C11 / C02 (all fault kinds, places, deliveries) also written with CRLF and with CR line ends: index, line, quote and trace agree with the files as written",
		Assume: []string{"that the index lies inside the span of the directive at fault is decided for the fault kinds of C11 by C11 (single injected faults with known culprits) and here for schema faults injected into every schema-bearing directive of the pool documents; on all other rejected runs the location is checked for internal consistency"},
		Run:    runC02, QuickCap: 12 * time.Minute, ThoroughCap: 60 * time.Minute,
	})
}

// convention returns the single line-end convention of a text ("" none, "mixed").
func convention(s string) string {
	hasCRLF := strings.Contains(s, "\r\n")
	rest := strings.ReplaceAll(s, "\r\n", "")
	hasCR, hasLF := strings.Contains(rest, "\r"), strings.Contains(rest, "\n")
	n := 0
	for _, b := range []bool{hasCRLF, hasCR, hasLF} {
		if b {
			n++
		}
	}
	switch {
	case n == 0:
		return ""
	case n > 1:
		return "mixed"
	case hasCRLF:
		return "\r\n"
	case hasCR:
		return "\r"
	}
	return "\n"
}

// refLineQuote: the sentence of C02 (and the documented truncation).
func refLineQuote(content string, idx int, nl string) (int, string) {
	if nl == "" {
		nl = "\n"
	}
	if idx > len(content) {
		idx = len(content)
	}
	line := 1
	begin := 0
	for i := 0; i+len(nl) <= idx && i < len(content); {
		if strings.HasPrefix(content[i:], nl) {
			line++
			i += len(nl)
			begin = i
			continue
		}
		i++
	}
	end := len(content)
	if j := strings.Index(content[begin:], nl); j >= 0 {
		end = begin + j
	}
	if idx < begin { // the index points inside the line-end sequence that closes the previous line
		begin = 0
	}
	l := content[begin:end]
	if len(l) > 200 {
		return line, strings.TrimLeft(l[:197], " \t\r\n") + "..."
	}
	return line, strings.TrimLeft(l, " \t\r\n")
}

var traceRe = regexp.MustCompile(`^(.*):(\d+)$`)

// checkLocation returns class, detail of the first location inconsistency.
func checkLocation(o drv.Outcome, files map[string]string, rootName string) (string, string) {
	locName := o.File
	content, known := "", false
	if locName == "" {
		locName = rootName
	}
	for name, c := range files {
		if name == locName || filepath.Base(name) == filepath.Base(locName) && strings.HasSuffix(locName, name) {
			content, known = c, true
		}
	}
	if strings.Contains(o.ErrText, "\n"+o.File+":") && filepath.IsAbs(o.File) {
		// the located file was reached through an INCLUDE, i.e. read from disk
		if b, err := os.ReadFile(o.File); err == nil {
			content, known = string(b), true
		}
	}
	if o.FileLen >= 0 && (o.Index < 0 || o.Index > o.FileLen) {
		return "index-range", fmt.Sprintf("index %d is outside the located file %s of length %d", o.Index, filepath.Base(locName), o.FileLen)
	}
	if known {
		if len(content) != o.FileLen && o.FileLen >= 0 {
			return "", "" // not the file we think (same base name elsewhere): skip the strict part
		}
		conv := convention(content)
		if conv != "mixed" && len(content) > 0 {
			idx := o.Index
			// an index pointing into the middle of a CRLF pair: still that line
			wl, wq := refLineQuote(content, idx, conv)
			if conv == "\r\n" && idx > 0 && idx < len(content) && content[idx] == '\n' && content[idx-1] == '\r' {
				wl, wq = refLineQuote(content, idx-1, conv)
			}
			if o.Line != wl {
				return "line", fmt.Sprintf("index %d is on line %d of %s, the diagnostic says line %d", o.Index, wl, filepath.Base(locName), o.Line)
			}
			if o.Quote != wq && !(wq == "" && strings.Trim(o.Quote, " \t") == "") {
				// (a line of blanks only may be quoted as it is)
				return "quote", fmt.Sprintf("the source line at index %d is %q, the diagnostic quotes %q", o.Index, wq, o.Quote)
			}
		} else if o.Line < 1 {
			return "line", fmt.Sprintf("line %d", o.Line)
		}
	}
	// include trace
	var entries [][2]string
	lines := strings.Split(o.ErrText, "\n")
	for i := len(lines) - 1; i >= 1; i-- {
		m := traceRe.FindStringSubmatch(lines[i])
		if m == nil {
			break
		}
		entries = append([][2]string{{m[1], m[2]}}, entries...)
	}
	rootPath := ""
	for name := range files {
		if filepath.Base(name) == rootName || name == rootName {
			rootPath = name
		}
	}
	inRoot := o.File == "" || o.File == rootName || filepath.Base(o.File) == rootName && len(files) == 1 || (rootPath != "" && o.File == rootPath)
	if len(files) > 1 && o.File != "" && !inRoot && !strings.HasSuffix(o.File, "/"+rootName) {
		if len(entries) == 0 {
			return "trace-missing", fmt.Sprintf("the fault is located in %s, not the root file, but the message carries no include trace: %q", filepath.Base(o.File), o.ErrText)
		}
	}
	if len(entries) > 0 {
		if strings.Contains(o.Msg, "\n") {
			return "", "" // the message wraps another diagnostic together with its trace (PASTE of a faulty macro): not judged
		}
		if entries[0][0] != o.File || entries[0][1] != strconv.Itoa(o.Line) {
			return "trace-first", fmt.Sprintf("first trace entry %s:%s, the fault is located at %s:%d", entries[0][0], entries[0][1], o.File, o.Line)
		}
		for k := 1; k < len(entries); k++ {
			fpath, ln := entries[k][0], entries[k][1]
			var fc string
			found := false
			for name, c := range files {
				if strings.HasSuffix(fpath, "/"+name) || fpath == name {
					fc, found = c, true
				}
			}
			if !found && filepath.IsAbs(fpath) {
				if b, err := os.ReadFile(fpath); err == nil {
					fc, found = string(b), true
				}
			}
			if !found {
				return "trace-file", fmt.Sprintf("trace entry %s:%s names a file that is not part of the project", fpath, ln)
			}
			n, _ := strconv.Atoi(ln)
			src := strings.Split(strings.ReplaceAll(strings.ReplaceAll(fc, "\r\n", "\n"), "\r", "\n"), "\n")
			if n < 1 || n > len(src) {
				return "trace-line", fmt.Sprintf("trace entry %s:%s: the file has %d lines", filepath.Base(fpath), ln, len(src))
			}
			prev := filepath.Base(entries[k-1][0])
			l := src[n-1]
			if !includeLineNames(src, n-1, prev) {
				// the pattern pinned by the repository's own fixture err_33_macro_override: the line is that
				// of an earlier INCLUDE in the same including file, the right INCLUDE stands further down
				if strings.Contains(l, "INCLUDE") {
					for _, later := range src[n:] {
						if strings.Contains(later, "INCLUDE") && strings.Contains(later, prev) {
							return "trace-earlier-include-of-same-file", fmt.Sprintf("trace entry %s:%s is the line of an earlier INCLUDE (%q) of the same file; the INCLUDE of %s that was followed stands further down", filepath.Base(fpath), ln, strings.TrimSpace(l), prev)
						}
					}
				}
				return "trace-line", fmt.Sprintf("trace entry %s:%s should be the line of the INCLUDE of %s, but that line is %q", filepath.Base(fpath), ln, prev, strings.TrimSpace(l))
			}
		}
		last := entries[len(entries)-1][0]
		if !(last == rootName || strings.HasSuffix(last, "/"+rootName)) {
			return "trace-root", fmt.Sprintf("the trace ends in %s, not in the root file %s", last, rootName)
		}
	}
	return "", ""
}

// faultTapHook runs the fault injector of C11 with a tap (set in the verif build, c11.go).
var faultTapHook func(c *fw.Ctx, tap func(label string, p drv.Project))

func runC02(c *fw.Ctx) {
	// faults found only when a schema is loaded (incompatible rule, unknown rule, duplicate key), in
	// every schema-bearing directive of every pool document (so also in a type reached through a
	// chain of references), delivered directly, through PASTE and through INCLUDE: the diagnostic
	// must lie inside the directive whose body holds the fault, in the file that holds it
	runFaults(c, "C02:span:", func(kind string) bool { return strings.HasPrefix(kind, "schema-error-") })
	dir := drv.NewDir(fw.Scratch("c02"))
	defer os.RemoveAll(filepath.Dir(dir.Path))
	defer dir.Close()
	judge := func(stream, label string, sc streamCase) {
		c.Count("evaluations", 1)
		o := runCase(dir, sc, false)
		if !o.Rejected() {
			return
		}
		c.Count("rejected", 1)
		c.Count("rejected_"+stream, 1)
		c.Distinct(stream + "|" + label + "|" + sc.proj.Files[sc.proj.Root])
		files := sc.proj.Files
		rootName := sc.proj.Root
		if sc.memName != "" {
			files = map[string]string{sc.memName: sc.proj.Files[sc.proj.Root]}
			rootName = sc.memName
		}
		if cls, det := checkLocation(o, files, rootName); cls != "" {
			o2 := runCase(dir, sc, false)
			if c2, _ := checkLocation(o2, files, rootName); c2 == cls {
				c.Violate("ill-located-diagnostic", "C02:"+cls+":"+stream, stream+" "+label+": "+det+"  ["+o.Msg+"]", map[string]interface{}{"project": sc.proj, "options": sc.opt})
			}
			return
		}
		c.Sample(stream, 1, map[string]interface{}{"stream": stream, "label": label, "diagnostic": o.Short(), "quote": o.Quote})
	}
	streams := map[string]bool{"corpus": true, "ctx": true, "variants": true, "paste": true, "include": true, "include-graph": true, "options": true, "names": true, "schema-rules": true, "nul-places": true}
	if !c.Quick() {
		streams["scan"] = true
	}
	eachCase(c, streams, func(sc streamCase) {
		judge(sc.stream, sc.label, sc)
		// the same text under the other line-end conventions (single-file, in-memory cases of the variants stream)
		if sc.stream == "variants" && sc.memName == "" {
			for _, nl := range []string{"\r\n", "\r"} {
				t := strings.ReplaceAll(sc.proj.Files[sc.proj.Root], "\n", nl)
				sc2 := sc
				sc2.proj = drv.Single(t)
				judge("variants"+fmt.Sprintf("%q", nl), sc.label, sc2)
			}
		}
	})

	// every single-fault project of C11 / C02 (every fault kind at every place of every pool
	// document, delivered directly, through PASTE and through INCLUDE) written with CRLF and with
	// CR line ends: index, line, quote and trace still agree with the files as they are written
	// (the documents hold multi-line descriptions, bodies and comments before the fault)
	if faultTapHook != nil {
		faultTapHook(c, func(label string, p drv.Project) {
			for _, nl := range []string{"\r\n", "\r"} {
				files := map[string]string{}
				for k, v := range p.Files {
					files[k] = strings.ReplaceAll(v, "\n", nl)
				}
				sc := streamCase{stream: "faults-line-ends", label: fmt.Sprintf("%s nl=%q", label, nl), proj: drv.Project{Root: p.Root, Files: files}, opt: drv.Options{FixedSeed: true}}
				judge("faults-line-ends", sc.label, sc)
			}
		})
	}

	// dedicated include structures x faults
	faults := map[string]string{
		"scanner":   "TYPE @ok1 any\n$bad\n",
		"context":   "TYPE @ok1 any\nTitle \"x\"\n",
		"duplicate": "TYPE @dup any\n\n\nTYPE @dup any\n",
		"schema":    "TYPE @ok1 any\nTYPE @broken\n  {\"a\": }\n",
		"dangling":  "TYPE @ok1 any\nGET /dangling\n  200 @nope\n",
		"no-path":   "TYPE @ok1 any\n\nGET\n  200 any\n",
		"long-line": "TYPE @ok1 any\nGET /" + strings.Repeat("x", 230) + " $\n",
		// bodies that are still open where the file ends (the diagnostic sits on the last byte, which
		// is the second byte of a CRLF pair in a CRLF file)
		"unclosed-enum":     "TYPE @ok1 any\nENUM @e\n  [1,\n    2,\n",
		"unclosed-schema":   "TYPE @ok1 any\nTYPE @open\n  {\n    \"a\": 1,\n",
		"unclosed-response": "TYPE @ok1 any\nGET /open\n  200\n    {\n      \"a\": [1,\n",
	}
	good := func(i int) string { return fmt.Sprintf("TYPE @g%d any\n# filler\n", i) }
	type structure struct {
		name  string
		build func(faulty int, fault string) map[string]string // faulty: index of the faulty file (0 = root)
		n     int
	}
	structs := []structure{
		{"chain2", func(fi int, f string) map[string]string {
			m := map[string]string{"root.jst": "JSIGHT 0.3\n\nINCLUDE a.jst\n" + good(0), "a.jst": good(1) + "\nINCLUDE b.jst\n", "b.jst": good(2)}
			return withFault(m, []string{"root.jst", "a.jst", "b.jst"}, fi, f)
		}, 3},
		{"comment-spanning-includes", func(fi int, f string) map[string]string {
			// a block comment of several lines between the keyword and the file name: the INCLUDE is
			// on the line of its keyword
			m := map[string]string{"root.jst": "JSIGHT 0.3\n\nINCLUDE ###\n note\n### a.jst\n" + good(0), "a.jst": good(1) + "\nINCLUDE ### x\n### b.jst\n", "b.jst": good(2)}
			return withFault(m, []string{"root.jst", "a.jst", "b.jst"}, fi, f)
		}, 3},
		{"chain3-subdirs", func(fi int, f string) map[string]string {
			m := map[string]string{"root.jst": "JSIGHT 0.3\nINCLUDE d1/a.jst\n", "d1/a.jst": good(1) + "INCLUDE d2/b.jst\n", "d1/d2/b.jst": "\n\nINCLUDE c.jst\n" + good(2), "d1/d2/c.jst": good(3)}
			return withFault(m, []string{"root.jst", "d1/a.jst", "d1/d2/b.jst", "d1/d2/c.jst"}, fi, f)
		}, 4},
		{"two-files-one-place", func(fi int, f string) map[string]string {
			m := map[string]string{"root.jst": "JSIGHT 0.3\nINCLUDE a.jst\nINCLUDE b.jst\n" + good(0), "a.jst": good(1), "b.jst": good(2)}
			return withFault(m, []string{"root.jst", "a.jst", "b.jst"}, fi, f)
		}, 3},
		{"two-includes-apart", func(fi int, f string) map[string]string {
			m := map[string]string{"root.jst": "JSIGHT 0.3\n\nINCLUDE a.jst\n" + good(0) + "\n\nINCLUDE b.jst\n", "a.jst": good(1), "b.jst": good(2)}
			return withFault(m, []string{"root.jst", "a.jst", "b.jst"}, fi, f)
		}, 3},
		{"inner-two-includes-apart", func(fi int, f string) map[string]string {
			m := map[string]string{"root.jst": "JSIGHT 0.3\nINCLUDE m.jst\n", "m.jst": "INCLUDE a.jst\n" + good(0) + "\n\nINCLUDE b.jst\n" + good(3), "a.jst": good(1), "b.jst": good(2)}
			return withFault(m, []string{"root.jst", "m.jst", "a.jst", "b.jst"}, fi, f)
		}, 4},
		{"same-file-two-places", func(fi int, f string) map[string]string {
			// resp.jst holds only nameless things so that it may be included twice
			m := map[string]string{"root.jst": "JSIGHT 0.3\nGET /one\n  INCLUDE resp.jst\n\nGET /two\n  200 any\n  INCLUDE resp.jst\n", "resp.jst": "404 any\n"}
			if fi == 1 {
				m["resp.jst"] = "404 any\n404 @nope\n"
			} else if fi == 0 {
				m["root.jst"] += f
			}
			return m
		}, 2},
	}
	for _, st := range structs {
		for fname, ftext := range sortedFaults(faults) {
			_ = fname
			for fi := 0; fi < st.n; fi++ {
				// every file has its own line-end convention: all assignments of {LF, CRLF, CR} to the files
				nls := []string{"\n", "\r\n", "\r"}
				var names []string
				for k := range st.build(fi, ftext[1]) {
					names = append(names, k)
				}
				sort.Strings(names)
				combos := 1
				for range names {
					combos *= 3
				}
				for code := 0; code < combos; code++ {
					if !c.Next() {
						continue
					}
					files := st.build(fi, ftext[1])
					x := code
					var conv []string
					for _, k := range names {
						nl := nls[x%3]
						x /= 3
						conv = append(conv, fmt.Sprintf("%q", nl))
						if nl != "\n" {
							files[k] = strings.ReplaceAll(files[k], "\n", nl)
						}
					}
					sc := streamCase{stream: "include-faults", label: fmt.Sprintf("%s fault=%s in-file=%d nl=%s", st.name, ftext[0], fi, strings.Join(conv, "")), proj: drv.Project{Root: "root.jst", Files: files}, opt: drv.Options{FixedSeed: true}}
					c.Describe(sc.label)
					judge("include-faults", sc.label, sc)
				}
			}
		}
	}
}

// includeLineNames: line i of src starts an INCLUDE directive whose file name is prev. The name
// stands on the keyword's line, or - after a block comment of several lines - on the line the
// comment ends on.
func includeLineNames(src []string, i int, prev string) bool {
	if !strings.Contains(src[i], "INCLUDE") {
		return false
	}
	j := i + 8
	if j > len(src) {
		j = len(src)
	}
	t := strings.Join(src[i:j], "\n")
	t = t[strings.Index(t, "INCLUDE"):]
	t = blockComment.ReplaceAllString(t, " ")
	if k := strings.IndexByte(t, '\n'); k >= 0 {
		t = t[:k]
	}
	return strings.Contains(t, prev)
}

var blockComment = regexp.MustCompile(`###[\s\S]*?###`)

func withFault(m map[string]string, order []string, fi int, fault string) map[string]string {
	m[order[fi]] += fault
	return m
}

func sortedFaults(m map[string]string) [][2]string {
	var keys []string
	for k := range m {
		keys = append(keys, k)
	}
	sortStrings(keys)
	var out [][2]string
	for _, k := range keys {
		out = append(out, [2]string{k, m[k]})
	}
	return out
}

func sortStrings(s []string) {
	for i := 1; i < len(s); i++ {
		for j := i; j > 0 && s[j] < s[j-1]; j-- {
			s[j], s[j-1] = s[j-1], s[j]
		}
	}
}
