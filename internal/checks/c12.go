package checks

import (
	"fmt"
	"strings"
	"time"

	"verif/internal/doc"
	"verif/internal/drv"
	"verif/internal/fw"
	"verif/internal/jsonx"
)

func init() {
	fw.Register(&fw.Check{
		ID: "C12", Level: "model_checking",
		Rule: "ALL inheritance graphs over 2..3 (quick) / 2..4 (thorough) object types: every assignment of an ordered list of 0..2 distinct bases to each type (chains, several bases, shared bases, diamonds, cycles) x own-property pattern per type {one private property, private + a name shared by all, none} x ALL declaration orders x host of an additional inheriting schema {none, request, response, response headers, query, nested object property of a type}; oracle, in every accepted document: each type's property list = the reference inheritance (bases in naming order, transitively, each property marked with the named base it came through, each key once, own properties last) and base types stay as declared; plus negative cases (override of an inherited property, non-object base, undefined base) rejected; non-trivial = accepted document with at least one allOf; distinct = distinct documents",
		Assume: []string{"documents the schema library rejects (e.g. the same key reachable through two bases, cycles) are counted, not judged: the property speaks about accepted documents"},
		Run:    runC12, QuickCap: 8 * time.Minute, ThoroughCap: 40 * time.Minute,
	})
}

type inhType struct {
	name  string
	bases []int
	own   []string
}

type inhProp struct{ key, from string }

// refProps computes the expected property list of type i; ok=false on a cycle or a duplicate own key.
func refProps(ts []inhType, i int, visiting map[int]bool) (props []inhProp, ok bool) {
	if visiting[i] {
		return nil, false
	}
	visiting[i] = true
	defer delete(visiting, i)
	seen := map[string]bool{}
	for _, b := range ts[i].bases {
		bp, ok := refProps(ts, b, visiting)
		if !ok {
			return nil, false
		}
		for _, p := range bp {
			if seen[p.key] {
				continue
			}
			seen[p.key] = true
			props = append(props, inhProp{p.key, "@" + ts[b].name})
		}
	}
	for _, k := range ts[i].own {
		if seen[k] {
			return nil, false // override of an inherited property
		}
		seen[k] = true
		props = append(props, inhProp{k, ""})
	}
	return props, true
}

func objBody(bases []string, own []string, val int) string {
	head := "{"
	if len(bases) == 1 {
		head += " // {allOf: \"" + bases[0] + "\"}"
	} else if len(bases) > 1 {
		var q []string
		for _, b := range bases {
			q = append(q, "\""+b+"\"")
		}
		head += " // {allOf: [" + strings.Join(q, ", ") + "]}"
	}
	var lines []string
	for j, k := range own {
		lines = append(lines, fmt.Sprintf("  \"%s\": %d", k, val*10+j))
	}
	if len(lines) == 0 {
		return head + "\n}"
	}
	return head + "\n" + strings.Join(lines, ",\n") + "\n}"
}

func childrenOf(content *jsonx.V) []inhProp {
	var out []inhProp
	ch := content.Get("children")
	if ch == nil {
		return nil
	}
	for _, x := range ch.A {
		out = append(out, inhProp{x.Get("key").Str(), x.Get("inheritedFrom").Str()})
	}
	return out
}

func propsEqual(a, b []inhProp) bool {
	if len(a) != len(b) {
		return false
	}
	for i := range a {
		if a[i] != b[i] {
			return false
		}
	}
	return true
}

func runC12(c *fw.Ctx) {
	opt := drv.Options{FixedSeed: true}
	maxN := 3
	if !c.Quick() {
		maxN = 4
	}
	names := []string{"ta", "tb", "tc", "td"}
	hosts := []string{"none", "request", "response", "resp-headers", "query", "nested", "nested-base-heir-first", "nested-base-heir-last"}
	for n := 2; n <= maxN; n++ {
		// base list options for type i: ordered lists of 0..2 distinct other types
		var baseOpts [][][]int
		for i := 0; i < n; i++ {
			opts := [][]int{nil}
			for a := 0; a < n; a++ {
				if a == i {
					continue
				}
				opts = append(opts, []int{a})
				for b := 0; b < n; b++ {
					if b == i || b == a {
						continue
					}
					opts = append(opts, []int{a, b})
				}
			}
			baseOpts = append(baseOpts, opts)
		}
		ownPatterns := 3
		idx := make([]int, n)  // base option per type
		pat := make([]int, n)  // own pattern per type
		var recB func(i int)
		var recP func(i int)
		emit := func() {
			ts := make([]inhType, n)
			anyAllOf := false
			for i := 0; i < n; i++ {
				ts[i] = inhType{name: names[i], bases: baseOpts[i][idx[i]]}
				if len(ts[i].bases) > 0 {
					anyAllOf = true
				}
				switch pat[i] {
				case 0:
					ts[i].own = []string{"p" + names[i]}
				case 1:
					ts[i].own = []string{"p" + names[i], "shared"}
				}
			}
			if !anyAllOf {
				return
			}
			permutations(n, func(order []int) bool {
				for _, host := range hosts {
					if !c.Next() {
						continue
					}
					c.Count("evaluations", 1)
					nodes := []*doc.Node{doc.Jsight()}
					for _, i := range order {
						var bn []string
						for _, b := range ts[i].bases {
							bn = append(bn, "@"+ts[b].name)
						}
						nodes = append(nodes, doc.N("TYPE", "@"+ts[i].name).WithBody(objBody(bn, ts[i].own, i+1)))
					}
					// the extra inheriting schema takes the last type as its base
					hb := objBody([]string{"@" + ts[n-1].name}, []string{"hostown"}, 9)
					switch host {
					case "request":
						nodes = append(nodes, doc.N("POST", "/h").WithParen().WithKids(doc.N("Request").WithBody(hb), doc.N("200", "any")))
					case "response":
						nodes = append(nodes, doc.N("GET", "/h").WithParen().WithKids(doc.N("200").WithBody(hb)))
					case "resp-headers":
						nodes = append(nodes, doc.N("GET", "/h").WithParen().WithKids(doc.N("200").WithKids(doc.N("Headers").WithBody(hb), doc.N("Body", "any"))))
					case "query":
						nodes = append(nodes, doc.N("GET", "/h").WithParen().WithKids(doc.N("Query").WithBody(hb), doc.N("200", "any")))
					case "nested-base-heir-first", "nested-base-heir-last":
						holder := doc.N("TYPE", "@holder").WithBody("{\n  \"in\": " + strings.ReplaceAll(hb, "\n", "\n  ") + "\n}")
						heir := doc.N("TYPE", "@heir").WithBody("{ // {allOf: \"@holder\"}\n  \"z\": 1\n}")
						if host == "nested-base-heir-first" {
							nodes = append([]*doc.Node{nodes[0], heir, holder}, nodes[1:]...)
						} else {
							nodes = append(append([]*doc.Node{nodes[0], holder}, nodes[1:]...), heir)
						}
					case "nested":
						nodes = append([]*doc.Node{nodes[0], doc.N("TYPE", "@holder").WithBody("{\n  \"in\": " + strings.ReplaceAll(hb, "\n", "\n  ") + "\n}")}, nodes[1:]...)
					}
					text := doc.Text(nodes)
					c.Describe(fmt.Sprintf("n=%d bases=%v own=%v order=%v host=%s", n, idx, pat, order, host))
					o := drv.RunMem("root.jst", text, opt)
					if o.Crashed() {
						c.Count("skipped_crash", 1)
						continue
					}
					if !o.OK() {
						c.Count("rejected_not_judged", 1)
						// the reference's own rejections must be rejections of the library too
						continue
					}
					c.Distinct(text)
					c.Count("accepted_documents_compared", 1)
					cat, _, err := jsonx.Parse([]byte(o.JSON))
					if err != nil {
						continue
					}
					bad := ""
					for i := 0; i < n && bad == ""; i++ {
						want, ok := refProps(ts, i, map[int]bool{})
						if !ok {
							bad = fmt.Sprintf("type @%s overrides an inherited property or inherits in a cycle, yet the document is accepted", ts[i].name)
							break
						}
						got := childrenOf(cat.Path("userTypes", "@"+ts[i].name, "schema", "content"))
						if !propsEqual(got, want) {
							bad = fmt.Sprintf("type @%s has properties %v, reference %v", ts[i].name, got, want)
						}
					}
					if bad == "" && host != "none" {
						last, ok := refProps(ts, n-1, map[int]bool{})
						var want []inhProp
						if ok {
							for _, p := range last {
								want = append(want, inhProp{p.key, "@" + ts[n-1].name})
							}
							want = append(want, inhProp{"hostown", ""})
						}
						var content *jsonx.V
						in := cat.Get("interactions")
						switch host {
						case "request":
							content = in.Vals[0].Path("request", "body", "schema", "content")
						case "response":
							content = in.Vals[0].Get("responses").A[0].Path("body", "schema", "content")
						case "resp-headers":
							content = in.Vals[0].Get("responses").A[0].Path("headers", "schema", "content")
						case "query":
							content = in.Vals[0].Path("query", "schema", "content")
						case "nested-base-heir-first", "nested-base-heir-last":
							// the heir's inherited property "in" must carry the expanded nested object
							h := cat.Path("userTypes", "@heir", "schema", "content", "children")
							if h != nil && len(h.A) == 2 && h.A[0].Get("key").Str() == "in" && h.A[0].Get("inheritedFrom").Str() == "@holder" {
								content = h.A[0]
							}
						case "nested":
							h := cat.Path("userTypes", "@holder", "schema", "content", "children")
							if h != nil && len(h.A) == 1 {
								content = h.A[0]
							}
						}
						if content == nil {
							bad = "host schema not found in the catalog"
						} else if got := childrenOf(content); !propsEqual(got, want) {
							bad = fmt.Sprintf("the %s schema inheriting from @%s has properties %v, reference %v", host, ts[n-1].name, got, want)
						}
					}
					if bad != "" {
						c.Violate("inheritance", "C12:"+host+":"+firstWordsN(bad, 3), fmt.Sprintf("bases=%v own=%v order=%v host=%s: %s", idx, pat, order, host, bad), map[string]interface{}{"text": text})
					} else {
						c.Sample("graph n="+fmt.Sprint(n), 2, map[string]interface{}{"text": text})
					}
				}
				return !c.Expired()
			})
		}
		recP = func(i int) {
			if i == n {
				emit()
				return
			}
			for p := 0; p < ownPatterns; p++ {
				pat[i] = p
				recP(i + 1)
			}
		}
		recB = func(i int) {
			if i == n {
				recP(0)
				return
			}
			for b := range baseOpts[i] {
				idx[i] = b
				recB(i + 1)
			}
		}
		recB(0)
	}
	// negative cases
	neg := []struct{ label, text string }{
		{"override", "JSIGHT 0.3\nTYPE @b\n  {\n    \"k\": 1\n  }\nTYPE @t\n  { // {allOf: \"@b\"}\n    \"k\": 2\n  }\n"},
		{"override-declared-first", "JSIGHT 0.3\nTYPE @t\n  { // {allOf: \"@b\"}\n    \"k\": 2\n  }\nTYPE @b\n  {\n    \"k\": 1\n  }\n"},
		{"override-through-chain", "JSIGHT 0.3\nTYPE @t\n  { // {allOf: \"@m\"}\n    \"k\": 2\n  }\nTYPE @m\n  { // {allOf: \"@b\"}\n    \"m\": 1\n  }\nTYPE @b\n  {\n    \"k\": 1\n  }\n"},
		{"override-in-request", "JSIGHT 0.3\nTYPE @b\n  {\n    \"k\": 1\n  }\nPOST /x\n  Request\n    { // {allOf: \"@b\"}\n      \"k\": 2\n    }\n  200 any\n"},
		{"scalar-base", "JSIGHT 0.3\nTYPE @b\n  1\nTYPE @t\n  { // {allOf: \"@b\"}\n    \"k\": 2\n  }\n"},
		{"array-base", "JSIGHT 0.3\nTYPE @b\n  [1]\nTYPE @t\n  { // {allOf: \"@b\"}\n    \"k\": 2\n  }\n"},
		{"regex-base", "JSIGHT 0.3\nTYPE @b regex\n  /a/\nTYPE @t\n  { // {allOf: \"@b\"}\n    \"k\": 2\n  }\n"},
		{"any-base", "JSIGHT 0.3\nTYPE @b any\nTYPE @t\n  { // {allOf: \"@b\"}\n    \"k\": 2\n  }\n"},
		{"undefined-base", "JSIGHT 0.3\nTYPE @t\n  { // {allOf: \"@nope\"}\n    \"k\": 2\n  }\n"},
		{"undefined-base-in-list", "JSIGHT 0.3\nTYPE @b\n  {\n    \"j\": 1\n  }\nTYPE @t\n  { // {allOf: [\"@b\", \"@nope\"]}\n    \"k\": 2\n  }\n"},
		{"undefined-base-in-response", "JSIGHT 0.3\nGET /x\n  200\n    { // {allOf: \"@nope\"}\n      \"k\": 2\n    }\n"},
	}
	for _, t := range neg {
		if !c.Next() {
			continue
		}
		c.Count("evaluations", 1)
		c.Distinct(t.text)
		o := drv.RunMem("root.jst", t.text, opt)
		if !o.Rejected() && !o.Crashed() {
			c.Violate("bad-inheritance-accepted", "C12:neg:"+t.label, t.label+": "+o.Short(), map[string]interface{}{"text": t.text})
		}
	}
}
