package checks

import (
	"fmt"
	"strings"
	"time"

	"verif/internal/doc"
	"verif/internal/drv"
	"verif/internal/fw"
	"verif/internal/jsonx"
)

func init() {
	fw.Register(&fw.Check{
		ID: "C12", Level: "model_checking",
		Rule:   "ALL inheritance graphs over 2..3 (quick) / 2..4 (thorough) object types: every assignment of an ordered list of 0..2 distinct bases to each type (chains, several bases, shared bases, diamonds, cycles) x own-property pattern per type {one private property, private + a name shared by all, none, private + a property keyed by a type reference, private + a name that differs from the other types' in letter case only} x ALL declaration orders x host of an additional inheriting schema {none, request, response, response headers, query, nested object property of a type}; oracle, in every accepted document: each type's property list = the reference inheritance (bases in naming order, transitively, each property marked with the named base it came through, each key once, own properties last) and base types stay as declared; plus negative cases (override of an inherited property, non-object base, undefined base) rejected; non-trivial = accepted document with at least one allOf; distinct = distinct documents ; own-property names that differ from one another in letter case only are different properties",
		Assume: []string{"documents the schema library rejects (e.g. the same key reachable through two bases, cycles) are counted, not judged: the property speaks about accepted documents"},
		Run:    runC12, QuickCap: 8 * time.Minute, ThoroughCap: 40 * time.Minute,
	})
}

type inhType struct {
	name  string
	bases []int
	own   []string
}

type inhProp struct{ key, from string }

// refProps computes the expected property list of type i; ok=false on a cycle or a duplicate own key.
func refProps(ts []inhType, i int, visiting map[int]bool) (props []inhProp, ok bool) {
	if visiting[i] {
		return nil, false
	}
	visiting[i] = true
	defer delete(visiting, i)
	seen := map[string]bool{}
	for _, b := range ts[i].bases {
		bp, ok := refProps(ts, b, visiting)
		if !ok {
			return nil, false
		}
		for _, p := range bp {
			if seen[p.key] {
				continue
			}
			seen[p.key] = true
			props = append(props, inhProp{p.key, "@" + ts[b].name})
		}
	}
	for _, k := range ts[i].own {
		if seen[k] {
			return nil, false // override of an inherited property
		}
		seen[k] = true
		props = append(props, inhProp{k, ""})
	}
	return props, true
}

func objBody(bases []string, own []string, val int) string {
	head := "{"
	if len(bases) == 1 {
		head += " // {allOf: \"" + bases[0] + "\"}"
	} else if len(bases) > 1 {
		var q []string
		for _, b := range bases {
			q = append(q, "\""+b+"\"")
		}
		head += " // {allOf: [" + strings.Join(q, ", ") + "]}"
	}
	var lines []string
	for j, k := range own {
		if strings.HasPrefix(k, "@") {
			lines = append(lines, fmt.Sprintf("  %s: %d", k, val*10+j)) // key shortcut: the key is a type reference
			continue
		}
		lines = append(lines, fmt.Sprintf("  \"%s\": %d", k, val*10+j))
	}
	if len(lines) == 0 {
		return head + "\n}"
	}
	return head + "\n" + strings.Join(lines, ",\n") + "\n}"
}

func childrenOf(content *jsonx.V) []inhProp {
	var out []inhProp
	ch := content.Get("children")
	if ch == nil {
		return nil
	}
	for _, x := range ch.A {
		out = append(out, inhProp{x.Get("key").Str(), x.Get("inheritedFrom").Str()})
	}
	return out
}

func propsEqual(a, b []inhProp) bool {
	if len(a) != len(b) {
		return false
	}
	for i := range a {
		if a[i] != b[i] {
			return false
		}
	}
	return true
}

func runC12(c *fw.Ctx) {
	opt := drv.Options{FixedSeed: true}
	maxN := 3
	if !c.Quick() {
		maxN = 4
	}
	names := []string{"ta", "tb", "tc", "td"}
	hosts := c12Hosts()
	for n := 2; n <= maxN; n++ {
		// base list options for type i: ordered lists of 0..2 distinct other types
		var baseOpts [][][]int
		for i := 0; i < n; i++ {
			opts := [][]int{nil}
			for a := 0; a < n; a++ {
				if a == i {
					continue
				}
				opts = append(opts, []int{a})
				for b := 0; b < n; b++ {
					if b == i || b == a {
						continue
					}
					opts = append(opts, []int{a, b})
				}
			}
			baseOpts = append(baseOpts, opts)
		}
		ownPatterns := 5
		idx := make([]int, n) // base option per type
		pat := make([]int, n) // own pattern per type
		var recB func(i int)
		var recP func(i int)
		emit := func() {
			ts := make([]inhType, n)
			anyAllOf := false
			for i := 0; i < n; i++ {
				ts[i] = inhType{name: names[i], bases: baseOpts[i][idx[i]]}
				if len(ts[i].bases) > 0 {
					anyAllOf = true
				}
				switch pat[i] {
				case 0:
					ts[i].own = []string{"p" + names[i]}
				case 1:
					ts[i].own = []string{"p" + names[i], "shared"}
				case 3:
					ts[i].own = []string{"p" + names[i], "@k" + names[i]} // a property keyed by a type reference
				case 4:
					// names that differ from one another (and from "shared") in letter case only: keys are
					// compared exactly, so these are different properties
					cs := []byte("shared")
					cs[i] -= 'a' - 'A'
					ts[i].own = []string{"p" + names[i], string(cs)}
				}
			}
			if !anyAllOf {
				return
			}
			permutations(n, func(order []int) bool {
				for _, host := range hosts {
					if c.Expired() {
						return false
					}
					if (c.Quick() && n >= 3 || n >= 4) && (strings.Contains(host.name, "@inter1") || strings.Contains(host.name, "@inter2") || strings.Contains(host.name, "#1") || strings.Contains(host.name, "#2") || strings.Contains(host.name, "@method1") || strings.Contains(host.name, "@method2")) {
						continue // the position matrix of the hosts against all graphs over 2 (thorough 3) types, the base positions against 3 (4)
					}
					if !c.Next() {
						continue
					}
					for _, hostEmpty := range []bool{false, true} {
						// the inheriting schema of the host with one property of its own, and with none at all
						// (an empty object that only inherits); the latter against the graphs over 2 types
						if hostEmpty && (host.name == "none" || n > 2) {
							continue
						}
						c.Count("evaluations", 1)
						nodes := []*doc.Node{doc.Jsight()}
						for _, i := range order {
							var bn []string
							for _, b := range ts[i].bases {
								bn = append(bn, "@"+ts[b].name)
							}
							nodes = append(nodes, doc.N("TYPE", "@"+ts[i].name).WithBody(objBody(bn, ts[i].own, i+1)))
						}
						for i := 0; i < n; i++ {
							if pat[i] == 3 {
								nodes = append(nodes, doc.N("TYPE", "@k"+names[i]).WithBody("\"key\""))
							}
						}
						// the extra inheriting schema takes the last type as its base
						hostOwn := []string{"hostown"}
						if hostEmpty {
							hostOwn = nil
						}
						hb := objBody([]string{"@" + ts[n-1].name}, hostOwn, 9)
						var hostKeys []string
						if lastProps, ok := refProps(ts, n-1, map[int]bool{}); ok {
							for _, p := range lastProps {
								hostKeys = append(hostKeys, p.key)
							}
						}
						hostKeys = append(hostKeys, hostOwn...)
						nodes = host.build(nodes, hb, hostKeys)
						text := doc.Text(nodes)
						c.Describe(fmt.Sprintf("n=%d bases=%v own=%v order=%v host=%s host-empty=%v", n, idx, pat, order, host.name, hostEmpty))
						o := drv.RunMem("root.jst", text, opt)
						if o.Crashed() {
							c.Count("skipped_crash", 1)
							continue
						}
						if !o.OK() {
							c.Count("rejected_not_judged", 1)
							// the reference's own rejections must be rejections of the library too
							continue
						}
						c.Distinct(text)
						c.Count("accepted_documents_compared", 1)
						cat, _, err := jsonx.Parse([]byte(o.JSON))
						if err != nil {
							continue
						}
						bad := ""
						for i := 0; i < n && bad == ""; i++ {
							want, ok := refProps(ts, i, map[int]bool{})
							if !ok {
								bad = fmt.Sprintf("type @%s overrides an inherited property or inherits in a cycle, yet the document is accepted", ts[i].name)
								break
							}
							got := childrenOf(cat.Path("userTypes", "@"+ts[i].name, "schema", "content"))
							if !propsEqual(got, want) {
								bad = fmt.Sprintf("type @%s has properties %v, reference %v", ts[i].name, got, want)
							}
						}
						if bad == "" && host.name != "none" {
							last, ok := refProps(ts, n-1, map[int]bool{})
							var want []inhProp
							if ok {
								for _, p := range last {
									want = append(want, inhProp{p.key, "@" + ts[n-1].name})
								}
								if !hostEmpty {
									want = append(want, inhProp{"hostown", ""})
								}
							}
							content := host.locate(cat)
							if content == nil {
								bad = "host schema not found in the catalog"
							} else if got := childrenOf(content); !propsEqual(got, want) {
								bad = fmt.Sprintf("the %s schema inheriting from @%s has properties %v, reference %v", host.name, ts[n-1].name, got, want)
							}
						}
						if bad != "" {
							c.Violate("inheritance", "C12:"+host.name+":"+firstWordsN(bad, 3), fmt.Sprintf("bases=%v own=%v order=%v host=%s host-empty=%v: %s", idx, pat, order, host.name, hostEmpty, bad), map[string]interface{}{"text": text})
						} else {
							c.Sample("graph n="+fmt.Sprint(n), 2, map[string]interface{}{"text": text})
						}
					}
				}
				return !c.Expired()
			})
		}
		recP = func(i int) {
			if i == n {
				emit()
				return
			}
			for p := 0; p < ownPatterns; p++ {
				pat[i] = p
				recP(i + 1)
			}
		}
		recB = func(i int) {
			if i == n {
				recP(0)
				return
			}
			for b := range baseOpts[i] {
				idx[i] = b
				recB(i + 1)
			}
		}
		recB(0)
	}
	// negative cases
	neg := []struct{ label, text string }{
		{"override", "JSIGHT 0.3\nTYPE @b\n  {\n    \"k\": 1\n  }\nTYPE @t\n  { // {allOf: \"@b\"}\n    \"k\": 2\n  }\n"},
		{"override-declared-first", "JSIGHT 0.3\nTYPE @t\n  { // {allOf: \"@b\"}\n    \"k\": 2\n  }\nTYPE @b\n  {\n    \"k\": 1\n  }\n"},
		{"override-through-chain", "JSIGHT 0.3\nTYPE @t\n  { // {allOf: \"@m\"}\n    \"k\": 2\n  }\nTYPE @m\n  { // {allOf: \"@b\"}\n    \"m\": 1\n  }\nTYPE @b\n  {\n    \"k\": 1\n  }\n"},
		{"override-in-request", "JSIGHT 0.3\nTYPE @b\n  {\n    \"k\": 1\n  }\nPOST /x\n  Request\n    { // {allOf: \"@b\"}\n      \"k\": 2\n    }\n  200 any\n"},
		{"override-in-rpc-params", "JSIGHT 0.3\nTYPE @b\n  {\n    \"k\": 1\n  }\nURL /r\n  Protocol json-rpc-2.0\n  Method m\n    Params\n      { // {allOf: \"@b\"}\n        \"k\": 2\n      }\n"},
		{"override-in-rpc-result", "JSIGHT 0.3\nTYPE @b\n  {\n    \"k\": 1\n  }\nURL /r\n  Protocol json-rpc-2.0\n  Method m\n    Result\n      { // {allOf: \"@b\"}\n        \"k\": 2\n      }\n"},
		{"override-in-query", "JSIGHT 0.3\nTYPE @b\n  {\n    \"k\": 1\n  }\nGET /x\n  Query\n    { // {allOf: \"@b\"}\n      \"k\": 2\n    }\n  200 any\n"},
		{"override-in-second-response-headers", "JSIGHT 0.3\nTYPE @b\n  {\n    \"k\": 1\n  }\nGET /x\n  404 any\n  200\n    Headers\n      { // {allOf: \"@b\"}\n        \"k\": 2\n      }\n    Body any\n"},
		{"undefined-base-in-rpc-params", "JSIGHT 0.3\nURL /r\n  Protocol json-rpc-2.0\n  Method m\n    Params\n      { // {allOf: \"@nope\"}\n        \"k\": 2\n      }\n"},
		{"scalar-base", "JSIGHT 0.3\nTYPE @b\n  1\nTYPE @t\n  { // {allOf: \"@b\"}\n    \"k\": 2\n  }\n"},
		{"array-base", "JSIGHT 0.3\nTYPE @b\n  [1]\nTYPE @t\n  { // {allOf: \"@b\"}\n    \"k\": 2\n  }\n"},
		{"regex-base", "JSIGHT 0.3\nTYPE @b regex\n  /a/\nTYPE @t\n  { // {allOf: \"@b\"}\n    \"k\": 2\n  }\n"},
		{"any-base", "JSIGHT 0.3\nTYPE @b any\nTYPE @t\n  { // {allOf: \"@b\"}\n    \"k\": 2\n  }\n"},
		{"undefined-base", "JSIGHT 0.3\nTYPE @t\n  { // {allOf: \"@nope\"}\n    \"k\": 2\n  }\n"},
		{"undefined-base-in-list", "JSIGHT 0.3\nTYPE @b\n  {\n    \"j\": 1\n  }\nTYPE @t\n  { // {allOf: [\"@b\", \"@nope\"]}\n    \"k\": 2\n  }\n"},
		{"undefined-base-in-response", "JSIGHT 0.3\nGET /x\n  200\n    { // {allOf: \"@nope\"}\n      \"k\": 2\n    }\n"},
	}
	for _, t := range neg {
		if !c.Next() {
			continue
		}
		c.Count("evaluations", 1)
		c.Distinct(t.text)
		o := drv.RunMem("root.jst", t.text, opt)
		if !o.Rejected() && !o.Crashed() {
			c.Violate("bad-inheritance-accepted", "C12:neg:"+t.label, t.label+": "+o.Short(), map[string]interface{}{"text": t.text})
		}
	}
}

// c12host is a place where an additional schema inheriting from the last type is written, and
// where its content is found in the catalog.
type c12host struct {
	name   string
	build  func(nodes []*doc.Node, hb string, keys []string) []*doc.Node
	locate func(cat *jsonx.V) *jsonx.V
}

// c12Hosts: every schema-bearing place (request body / headers, response body / headers, query,
// path, JSON-RPC params / result, nested object of a type) x position of the response among its
// siblings (1st, 2nd after a response without headers, 3rd) x position of the interaction among
// filler interactions that lack / have the same features.
func c12Hosts() []c12host {
	indent := func(hb string) string { return strings.ReplaceAll(hb, "\n", "\n  ") }
	out := []c12host{{name: "none", build: func(n []*doc.Node, _ string, _ []string) []*doc.Node { return n }}}
	fillers := func(pos int) []*doc.Node {
		var f []*doc.Node
		if pos >= 1 {
			f = append(f, doc.N("GET", "/f0").WithParen().WithKids(doc.N("200", "any")))
		}
		if pos >= 2 {
			f = append(f, doc.N("POST", "/f1").WithParen().WithKids(
				doc.N("Query").WithBody("{\n  \"q\": 1\n}"),
				doc.N("Request").WithKids(doc.N("Headers").WithBody("{\n  \"H\": \"v\"\n}"), doc.N("Body").WithBody("{\n  \"b\": 1\n}")),
				doc.N("200").WithKids(doc.N("Headers").WithBody("{\n  \"R\": \"v\"\n}"), doc.N("Body").WithBody("{\n  \"c\": 1\n}"))))
		}
		return f
	}
	respFillers := func(k int) []*doc.Node {
		var f []*doc.Node
		if k >= 1 {
			f = append(f, doc.N("404", "any"))
		}
		if k >= 2 {
			f = append(f, doc.N("500").WithParen().WithKids(doc.N("Headers").WithBody("{\n  \"E\": \"v\"\n}"), doc.N("Body", "any")))
		}
		return f
	}
	inter := func(cat *jsonx.V, pos int) *jsonx.V {
		in := cat.Get("interactions")
		if in == nil || len(in.Vals) <= pos {
			return nil
		}
		return in.Vals[pos]
	}
	for pos := 0; pos <= 2; pos++ {
		pos := pos
		add := func(name string, kids func(hb string, keys []string) (path string, kids []*doc.Node), loc func(in *jsonx.V) *jsonx.V) {
			out = append(out, c12host{name: fmt.Sprintf("%s@inter%d", name, pos),
				build: func(nodes []*doc.Node, hb string, keys []string) []*doc.Node {
					path, kk := kids(hb, keys)
					nodes = append(nodes, fillers(pos)...)
					return append(nodes, doc.N("POST", path).WithParen().WithKids(kk...))
				},
				locate: func(cat *jsonx.V) *jsonx.V {
					in := inter(cat, pos)
					if in == nil {
						return nil
					}
					return loc(in)
				}})
		}
		add("request", func(hb string, _ []string) (string, []*doc.Node) {
			return "/h", []*doc.Node{doc.N("Request").WithBody(hb), doc.N("200", "any")}
		}, func(in *jsonx.V) *jsonx.V { return in.Path("request", "body", "schema", "content") })
		add("req-headers", func(hb string, _ []string) (string, []*doc.Node) {
			return "/h", []*doc.Node{doc.N("Request").WithKids(doc.N("Headers").WithBody(hb), doc.N("Body", "any")), doc.N("200", "any")}
		}, func(in *jsonx.V) *jsonx.V { return in.Path("request", "headers", "schema", "content") })
		add("query", func(hb string, _ []string) (string, []*doc.Node) {
			return "/h", []*doc.Node{doc.N("Query").WithBody(hb), doc.N("200", "any")}
		}, func(in *jsonx.V) *jsonx.V { return in.Path("query", "schema", "content") })
		add("path", func(hb string, keys []string) (string, []*doc.Node) {
			p := "/h"
			for _, k := range keys {
				p += "/{" + k + "}"
			}
			return p, []*doc.Node{doc.N("Path").WithBody(hb), doc.N("200", "any")}
		}, func(in *jsonx.V) *jsonx.V { return in.Path("pathVariables", "schema", "content") })
		for k := 0; k <= 2; k++ {
			k := k
			add(fmt.Sprintf("response#%d", k), func(hb string, _ []string) (string, []*doc.Node) {
				return "/h", append(respFillers(k), doc.N("200").WithBody(hb))
			}, func(in *jsonx.V) *jsonx.V {
				r := in.Get("responses")
				if r == nil || len(r.A) <= k {
					return nil
				}
				return r.A[k].Path("body", "schema", "content")
			})
			add(fmt.Sprintf("resp-headers#%d", k), func(hb string, _ []string) (string, []*doc.Node) {
				return "/h", append(respFillers(k), doc.N("201").WithKids(doc.N("Headers").WithBody(hb), doc.N("Body", "any")))
			}, func(in *jsonx.V) *jsonx.V {
				r := in.Get("responses")
				if r == nil || len(r.A) <= k {
					return nil
				}
				return r.A[k].Path("headers", "schema", "content")
			})
		}
		// JSON-RPC: the focus method is the (pos+1)-th method of the URL block
		for _, which := range []string{"params", "result"} {
			which := which
			out = append(out, c12host{name: fmt.Sprintf("rpc-%s@method%d", which, pos),
				build: func(nodes []*doc.Node, hb string, _ []string) []*doc.Node {
					u := doc.N("URL", "/r").WithParen().WithKids(doc.N("Protocol", "json-rpc-2.0"))
					if pos >= 1 {
						u.WithKids(doc.N("Method", "f0"))
					}
					if pos >= 2 {
						u.WithKids(doc.N("Method", "f1").WithParen().WithKids(doc.N("Params").WithBody("{\n  \"p\": 1\n}"), doc.N("Result").WithBody("{\n  \"r\": 1\n}")))
					}
					kw := "Params"
					if which == "result" {
						kw = "Result"
					}
					u.WithKids(doc.N("Method", "m").WithParen().WithKids(doc.N(kw).WithBody(hb)))
					return append(nodes, u)
				},
				locate: func(cat *jsonx.V) *jsonx.V {
					in := inter(cat, pos)
					if in == nil {
						return nil
					}
					return in.Path(which, "schema", "content")
				}})
		}
	}
	// nested object property of a type; the holder before all types, or itself inherited from
	nestedChild := func(cat *jsonx.V, typ string, nkids int, from string) *jsonx.V {
		h := cat.Path("userTypes", typ, "schema", "content", "children")
		if h != nil && len(h.A) == nkids && h.A[0].Get("key").Str() == "in" && h.A[0].Get("inheritedFrom").Str() == from {
			return h.A[0]
		}
		return nil
	}
	holder := func(hb string) *doc.Node {
		return doc.N("TYPE", "@holder").WithBody("{\n  \"in\": " + indent(hb) + "\n}")
	}
	heir := func() *doc.Node { return doc.N("TYPE", "@heir").WithBody("{ // {allOf: \"@holder\"}\n  \"z\": 1\n}") }
	// allOf below a plain intermediate object (depth 2) and inside an array element
	deep := func(hb string) *doc.Node {
		return doc.N("TYPE", "@deep").WithBody("{\n  \"mid\": {\n    \"in\": " + strings.ReplaceAll(hb, "\n", "\n    ") + "\n  }\n}")
	}
	inArr := func(hb string) *doc.Node {
		return doc.N("TYPE", "@arr").WithBody("{\n  \"list\": [\n    " + strings.ReplaceAll(hb, "\n", "\n    ") + "\n  ]\n}")
	}
	out = append(out,
		c12host{name: "nested-depth2", build: func(nodes []*doc.Node, hb string, _ []string) []*doc.Node {
			return append(nodes, deep(hb))
		}, locate: func(cat *jsonx.V) *jsonx.V {
			h := cat.Path("userTypes", "@deep", "schema", "content", "children")
			if h == nil || len(h.A) != 1 {
				return nil
			}
			m := h.A[0].Get("children")
			if m == nil || len(m.A) != 1 {
				return nil
			}
			return m.A[0]
		}},
		c12host{name: "nested-in-response-depth2", build: func(nodes []*doc.Node, hb string, _ []string) []*doc.Node {
			b := "{\n  \"mid\": {\n    \"in\": " + strings.ReplaceAll(hb, "\n", "\n    ") + "\n  }\n}"
			return append(nodes, doc.N("GET", "/deep").WithParen().WithKids(doc.N("200").WithBody(b)))
		}, locate: func(cat *jsonx.V) *jsonx.V {
			in := inter(cat, 0)
			if in == nil {
				return nil
			}
			r := in.Get("responses")
			if r == nil || len(r.A) != 1 {
				return nil
			}
			h := r.A[0].Path("body", "schema", "content", "children")
			if h == nil || len(h.A) != 1 {
				return nil
			}
			m := h.A[0].Get("children")
			if m == nil || len(m.A) != 1 {
				return nil
			}
			return m.A[0]
		}},
		c12host{name: "response-array-root", build: func(nodes []*doc.Node, hb string, _ []string) []*doc.Node {
			return append(nodes, doc.N("GET", "/arr").WithParen().WithKids(doc.N("200").WithBody("[\n  "+strings.ReplaceAll(hb, "\n", "\n  ")+"\n]")))
		}, locate: func(cat *jsonx.V) *jsonx.V {
			in := inter(cat, 0)
			if in == nil {
				return nil
			}
			r := in.Get("responses")
			if r == nil || len(r.A) != 1 {
				return nil
			}
			h := r.A[0].Path("body", "schema", "content", "children")
			if h == nil || len(h.A) != 1 {
				return nil
			}
			return h.A[0]
		}},
		// an array directly inside an array: the inheriting object is an item of the inner one
		c12host{name: "response-array-of-arrays", build: func(nodes []*doc.Node, hb string, _ []string) []*doc.Node {
			return append(nodes, doc.N("GET", "/arr2").WithParen().WithKids(doc.N("200").WithBody("[\n  [\n    "+strings.ReplaceAll(hb, "\n", "\n    ")+"\n  ]\n]")))
		}, locate: func(cat *jsonx.V) *jsonx.V {
			in := inter(cat, 0)
			if in == nil {
				return nil
			}
			r := in.Get("responses")
			if r == nil || len(r.A) != 1 {
				return nil
			}
			h := r.A[0].Path("body", "schema", "content", "children")
			if h == nil || len(h.A) != 1 {
				return nil
			}
			m := h.A[0].Get("children")
			if m == nil || len(m.A) != 1 {
				return nil
			}
			return m.A[0]
		}},
		// an array that describes several items: the inheriting object is the LAST of three item schemas
		c12host{name: "response-array-last-item", build: func(nodes []*doc.Node, hb string, _ []string) []*doc.Node {
			return append(nodes, doc.N("GET", "/arr3").WithParen().WithKids(doc.N("200").WithBody("[\n  1,\n  {\n    \"plain\": true\n  },\n  "+strings.ReplaceAll(hb, "\n", "\n  ")+"\n]")))
		}, locate: func(cat *jsonx.V) *jsonx.V {
			in := inter(cat, 0)
			if in == nil {
				return nil
			}
			r := in.Get("responses")
			if r == nil || len(r.A) != 1 {
				return nil
			}
			h := r.A[0].Path("body", "schema", "content", "children")
			if h == nil || len(h.A) != 3 {
				return nil
			}
			return h.A[2]
		}},
		c12host{name: "nested-in-array", build: func(nodes []*doc.Node, hb string, _ []string) []*doc.Node {
			return append(nodes, inArr(hb))
		}, locate: func(cat *jsonx.V) *jsonx.V {
			h := cat.Path("userTypes", "@arr", "schema", "content", "children")
			if h == nil || len(h.A) != 1 {
				return nil
			}
			m := h.A[0].Get("children")
			if m == nil || len(m.A) != 1 {
				return nil
			}
			return m.A[0]
		}},
	)
	out = append(out,
		c12host{name: "nested", build: func(nodes []*doc.Node, hb string, _ []string) []*doc.Node {
			return append([]*doc.Node{nodes[0], holder(hb)}, nodes[1:]...)
		}, locate: func(cat *jsonx.V) *jsonx.V { return nestedChild(cat, "@holder", 1, "") }},
		c12host{name: "nested-last", build: func(nodes []*doc.Node, hb string, _ []string) []*doc.Node {
			return append(nodes, holder(hb))
		}, locate: func(cat *jsonx.V) *jsonx.V { return nestedChild(cat, "@holder", 1, "") }},
		c12host{name: "nested-base-heir-first", build: func(nodes []*doc.Node, hb string, _ []string) []*doc.Node {
			return append([]*doc.Node{nodes[0], heir(), holder(hb)}, nodes[1:]...)
		}, locate: func(cat *jsonx.V) *jsonx.V { return nestedChild(cat, "@heir", 2, "@holder") }},
		c12host{name: "nested-base-heir-last", build: func(nodes []*doc.Node, hb string, _ []string) []*doc.Node {
			return append(append([]*doc.Node{nodes[0], holder(hb)}, nodes[1:]...), heir())
		}, locate: func(cat *jsonx.V) *jsonx.V { return nestedChild(cat, "@heir", 2, "@holder") }},
	)
	return out
}
