//go:build verif

package checks

import (
	"fmt"
	"github.com/jsightapi/jsight-api-go-library/directive"
	"os"
	"path/filepath"
	"regexp"
	"strings"
	"time"

	"verif/internal/doc"
	"verif/internal/drv"
	"verif/internal/fw"
)

func init() {
	fw.Register(&fw.Check{
		ID: "C11", Level: "model_checking",
		Rule:   "accepted documents = closed selections of 1..2 (quick) / 1..3 (thorough) pool blocks; each x every applicable fault (duplicate TYPE/ENUM/MACRO/SERVER/TAG at every top-level position, same method+path twice, same URL path twice, similar paths, second singleton child of each kind, each required parameter omitted, reference to an undefined type / enum / macro / tag in every reference position) x delivery {written directly, through a PASTE of a macro holding the faulty directive, through an INCLUDE of a file holding it}; oracle: rejected, and the diagnostic lies inside the source span of a directive taking part in the fault; non-trivial = every injected fault; distinct = distinct faulty projects ; E-REFCAT (see C04): on every fixture and pool selection, a duplicate server / type / enum / tag name or a duplicate interaction the reference compiler sees after macro expansion => rejected ; duplicate declarations for ALL names of length 1..3 (thorough 4) over {a _ - 1 A . % ~ é} in ten name-bearing kinds (TYPE ENUM MACRO SERVER TAG, method path bare and quoted, URL, URL vs method, JSON-RPC method): the single declaration accepted => the double one rejected inside one of the two declarations; late Path faults (parameter of an object type / undefined type)",
		Assume: []string{"for duplicates either occurrence is an accepted location; for PASTE / INCLUDE delivery the PASTE / INCLUDE line is accepted as well"},
		Run:    runC11, QuickCap: 8 * time.Minute, ThoroughCap: 40 * time.Minute,
	})
}

// fault describes an injected fault on a fresh tree.
type fault struct {
	kind     string
	nodes    []*doc.Node // whole faulty document
	culprits []*doc.Node // directives taking part in the fault
	injected *doc.Node   // the directive that was added / changed (delivered via PASTE / INCLUDE)
	parent   *doc.Node   // its parent (nil: top level)
}

// injectFaults enumerates single faults of a document given by a constructor of fresh trees.
func injectFaults(fresh func() []*doc.Node, emit func(f fault)) {
	count := doc.Count(fresh())
	idxOf := func(nn []*doc.Node, k int) (n, parent *doc.Node) {
		i := 0
		doc.Walk(nn, func(x *doc.Node, _ int, p *doc.Node) {
			if i == k {
				n, parent = x, p
			}
			i++
		})
		return
	}
	dupDecl := map[string]bool{"TYPE": true, "ENUM": true, "MACRO": true, "SERVER": true, "TAG": true}
	singletonUnder := map[string][]string{
		"Title": {"INFO"}, "Version": {"INFO"}, "Description": {"INFO", "GET", "POST", "PUT", "PATCH", "DELETE", "Method", "TAG"},
		"Query": {"GET", "POST", "PUT", "PATCH", "DELETE"}, "Path": {"URL", "GET", "POST", "PUT", "PATCH", "DELETE"}, "Protocol": {"URL"},
		"Body": {"Request", "200", "201", "204", "404", "500"}, "Headers": {"Request", "200", "201", "204", "404", "500"},
		"Params": {"Method"}, "Result": {"Method"}, "BaseUrl": {"SERVER"}, "Request": {"GET", "POST", "PUT", "PATCH", "DELETE"},
	}
	for k := 0; k < count; k++ {
		probe := fresh()
		n, parent := idxOf(probe, k)
		kw := n.Kw
		// 1. duplicates of named top-level declarations, inserted at every top-level position
		if parent == nil && dupDecl[kw] {
			for pos := 1; pos <= len(probe); pos++ {
				t := fresh()
				orig, _ := idxOf(t, k)
				cp := orig.Clone()
				t2 := append(append(append([]*doc.Node{}, t[:pos]...), cp), t[pos:]...)
				emit(fault{kind: "duplicate-" + kw, nodes: t2, culprits: []*doc.Node{orig, cp}, injected: cp})
			}
		}
		// 1b. the same declaration brought in twice by pasting one macro twice
		if parent == nil && dupDecl[kw] && kw != "MACRO" {
			for _, gap := range []bool{false, true} {
				t := fresh()
				orig, _ := idxOf(t, k)
				p1, p2 := doc.N("PASTE", "@dupm"), doc.N("PASTE", "@dupm")
				var t2 []*doc.Node
				for _, x := range t {
					if x == orig {
						t2 = append(t2, p1)
						if !gap {
							t2 = append(t2, p2)
						}
						continue
					}
					t2 = append(t2, x)
				}
				if gap {
					t2 = append(t2, p2)
				}
				t2 = append(t2, doc.N("MACRO", "@dupm").WithParen().WithKids(orig))
				emit(fault{kind: "duplicate-by-double-paste-" + kw, nodes: t2, culprits: []*doc.Node{orig, p1, p2}})
			}
		}
		// 2. same method on the same path / same URL path twice (top-level blocks), at the end and right after
		if parent == nil && (kw == "URL" || isMethod(kw)) {
			for _, pos := range []int{-1, 0, -2} { // -2: at the end, the second one bare (no children at all)
				t := fresh()
				orig, _ := idxOf(t, k)
				cp := orig.Clone()
				if pos == -2 {
					if kw != "URL" || len(cp.Kids) == 0 {
						continue // (a method without a response is a fault of its own)
					}
					cp.Kids, cp.Body, cp.Paren, cp.Ann = nil, "", false, ""
					pos = -1
					t2 := append(t, cp)
					emit(fault{kind: "duplicate-bare-" + methodOrURL(kw), nodes: t2, culprits: []*doc.Node{orig, cp}, injected: cp})
					continue
				}
				var t2 []*doc.Node
				if pos == -1 {
					t2 = append(t, cp)
				} else {
					for _, x := range t {
						t2 = append(t2, x)
						if x == orig {
							t2 = append(t2, cp)
						}
					}
				}
				culp := []*doc.Node{orig, cp}
				// for URL blocks the duplicate methods inside take part as well
				doc.Walk([]*doc.Node{orig, cp}, func(x *doc.Node, _ int, _ *doc.Node) { culp = append(culp, x) })
				emit(fault{kind: "duplicate-" + methodOrURL(kw), nodes: t2, culprits: culp, injected: cp})
			}
		}
		// same method twice inside one URL block
		if parent != nil && parent.Kw == "URL" && isMethod(kw) {
			t := fresh()
			orig, par := idxOf(t, k)
			cp := orig.Clone()
			par.Kids = append(par.Kids, cp)
			emit(fault{kind: "duplicate-method-in-url", nodes: t, culprits: []*doc.Node{orig, cp}, injected: cp, parent: par})
		}
		// 3. similar paths
		if isMethod(kw) || kw == "URL" {
			if len(n.Params) > 0 && strings.Contains(n.Params[0], "{id}") {
				t := fresh()
				orig, _ := idxOf(t, k)
				other := doc.N("GET", strings.Replace(orig.Params[0], "{id}", "{other}", 1)+"/more").WithParen().WithKids(doc.N("200", "any"))
				t = append(t, other)
				emit(fault{kind: "similar-paths", nodes: t, culprits: []*doc.Node{orig, other}, injected: other})
			}
		}
		// 3b. the same path with one parameter renamed, for every parameter of every path
		if (isMethod(kw) || kw == "URL") && len(n.Params) > 0 && parent == nil {
			pp, bad := refPathParams(n.Params[0])
			for pi := range pp {
				if bad {
					break
				}
				t := fresh()
				orig, _ := idxOf(t, k)
				renamed := strings.Replace(orig.Params[0], "{"+pp[pi].name+"}", "{zz"+fmt.Sprint(pi)+"}", 1)
				other := doc.N("PATCH", renamed).WithParen().WithKids(doc.N("200", "any"))
				t = append(t, other)
				emit(fault{kind: "similar-paths-renamed", nodes: t, culprits: []*doc.Node{orig, other}, injected: other})
			}
		}
		// 4. second singleton child
		if parent != nil {
			for _, host := range singletonUnder[kw] {
				if parent.Kw != host {
					continue
				}
				for _, atEnd := range []bool{false, true} {
					t := fresh()
					orig, par := idxOf(t, k)
					cp := orig.Clone()
					if atEnd {
						if par.Kids[len(par.Kids)-1] == orig || adopts(par.Kids[len(par.Kids)-1], cp) {
							continue
						}
						par.Kids = append(par.Kids, cp)
					} else {
						var kids []*doc.Node
						for _, x := range par.Kids {
							kids = append(kids, x)
							if x == orig {
								kids = append(kids, cp)
							}
						}
						par.Kids = kids
					}
					emit(fault{kind: "second-" + kw + "-in-" + kindOf(host), nodes: t, culprits: []*doc.Node{orig, cp, par}, injected: cp, parent: par})
				}
				// the second one need not be a copy: a different, in itself valid, instance
				for _, atEnd := range []bool{false, true} {
					t := fresh()
					orig, par := idxOf(t, k)
					v := singletonVariant(orig, par, doc.Text(t))
					if v == nil {
						continue
					}
					if atEnd {
						if par.Kids[len(par.Kids)-1] == orig || adopts(par.Kids[len(par.Kids)-1], v) {
							continue
						}
						par.Kids = append(par.Kids, v)
					} else {
						var kids []*doc.Node
						for _, x := range par.Kids {
							kids = append(kids, x)
							if x == orig {
								kids = append(kids, v)
							}
						}
						par.Kids = kids
					}
					emit(fault{kind: "second-" + kw + "-variant-in-" + kindOf(host), nodes: t, culprits: []*doc.Node{orig, v, par}, injected: v, parent: par})
				}
			}
		}
		// 5. required parameter omitted
		required := map[string]bool{"JSIGHT": true, "Title": true, "Version": true, "SERVER": true, "BaseUrl": true, "TYPE": true, "ENUM": true, "MACRO": true, "PASTE": true,
			"URL": true, "Protocol": true, "Method": true, "TAG": true, "Tags": true}
		if required[kw] && len(n.Params) > 0 {
			t := fresh()
			x, par := idxOf(t, k)
			if kw == "TYPE" {
				x.Params = x.Params[1:] // keep the notation, drop the name
			} else {
				x.Params = nil
			}
			culp := []*doc.Node{x}
			if kw == "MACRO" || kw == "TYPE" || kw == "ENUM" || kw == "TAG" || kw == "SERVER" {
				// users of the now nameless declaration may be reported instead
				doc.Walk(t, func(y *doc.Node, _ int, _ *doc.Node) { culp = append(culp, y) })
			}
			emit(fault{kind: "missing-parameter-" + kw, nodes: t, culprits: culp, injected: x, parent: par})
		}
		if parent == nil && isMethod(kw) && len(n.Params) > 0 {
			t := fresh()
			x, _ := idxOf(t, k)
			// a method without a path directly after a URL block that is not parenthesised is not
			// faulty: it joins that block
			joins := false
			for i, y := range t {
				if y == x && i > 0 && t[i-1].Kw == "URL" && !t[i-1].Paren {
					joins = true
				}
			}
			if !joins {
				x.Params = nil
				emit(fault{kind: "missing-path-" + "method", nodes: t, culprits: []*doc.Node{x}, injected: x})
			}
		}
		// 6. dangling references
		refHosts := map[string]bool{"200": true, "201": true, "204": true, "404": true, "500": true, "Request": true, "Body": true}
		if refHosts[kw] {
			t := fresh()
			x, par := idxOf(t, k)
			x.Params = []string{"@nope"}
			x.Body = ""
			x.Kids = nil
			emit(fault{kind: "undefined-type-in-" + kindOf(kw), nodes: t, culprits: []*doc.Node{x}, injected: x, parent: par})
		}
		if n.Body != "" && kw != "Description" && kw != "ENUM" && !contains(n.Params, "regex") {
			for _, v := range []struct{ kind, body string }{
				{"undefined-type-in-body", "{\n  \"ref\": @nope\n}"},
				{"undefined-type-in-rule", "{\n  \"ref\": 1 // {type: \"@nope\"}\n}"},
				{"undefined-allOf-base", "{ // {allOf: \"@nope\"}\n  \"own\": 1\n}"},
				{"undefined-enum", "{\n  \"k\": 1 // {enum: @nope}\n}"},
				{"undefined-type-in-array", "[@nope]"},
				{"undefined-type-in-or", "@nope | @nope2"},
			} {
				if (kw == "Headers" || kw == "Path" || kw == "Query") && !strings.HasPrefix(v.body, "{") {
					continue
				}
				t := fresh()
				x, par := idxOf(t, k)
				x.Body = v.body
				emit(fault{kind: v.kind + "@" + kindOf(kw), nodes: t, culprits: []*doc.Node{x}, injected: x, parent: par})
			}
			// names that only a never-pasted macro declares are not declared
			for _, v := range []struct{ kind, body string }{
				{"type-declared-only-in-unpasted-macro", "{\n  \"ref\": @deadT\n}"},
				{"enum-declared-only-in-unpasted-macro", "{\n  \"k\": 1 // {enum: @deadE}\n}"},
			} {
				if kw == "Headers" || kw == "Path" || kw == "Query" {
					continue
				}
				t := fresh()
				x, par := idxOf(t, k)
				x.Body = v.body
				t = append(t, doc.N("MACRO", "@deadM").WithParen().WithKids(doc.N("TYPE", "@deadT").WithBody("{\n  \"d\": 1\n}"), doc.N("ENUM", "@deadE").WithBody("[1, 2]")))
				emit(fault{kind: v.kind + "@" + kindOf(kw), nodes: t, culprits: []*doc.Node{x}, injected: x, parent: par})
			}
		}
		// 7. (for C02) a fault inside a schema that is only found when the schema is loaded: the body
		// keeps its properties and gets one more, faulty, first property
		if n.Body != "" && kw != "Description" && kw != "ENUM" && kw != "Path" && !contains(n.Params, "regex") {
			ls := strings.Split(n.Body, "\n")
			if len(ls) >= 2 && strings.HasPrefix(ls[0], "{") && ls[len(ls)-1] == "}" {
				for _, v := range []struct{ kind, prop string }{
					{"schema-error-incompatible-rule", "\"zzfault\": 1 // {type: \"string\"}"},
					{"schema-error-unknown-rule", "\"zzfault\": 1 // {nosuchrule: 1}"},
					{"schema-error-duplicate-key", "\"zzfault\": 1,\n  \"zzfault\": 2"},
				} {
					t := fresh()
					x, par := idxOf(t, k)
					inner := ls[1 : len(ls)-1]
					nb := ls[0] + "\n  " + v.prop
					if len(inner) > 0 {
						// the rule comment must stay last on its line: the comma goes before it
						if i := strings.Index(v.prop, " //"); i >= 0 {
							nb = ls[0] + "\n  " + v.prop[:i] + "," + v.prop[i:]
						} else {
							nb += ","
						}
						nb += "\n" + strings.Join(inner, "\n")
					}
					x.Body = nb + "\n}"
					emit(fault{kind: v.kind + "@" + kindOf(kw), nodes: t, culprits: []*doc.Node{x}, injected: x, parent: par})
				}
			}
		}
		// 8. faults of a path parameter that are only found when the path variables of all
		// interactions are put together, after every directive has been read: the value of the
		// first declared parameter becomes a reference to an object type / to an undefined type
		if kw == "Path" && strings.HasPrefix(n.Body, "{") {
			if m := pathFirstValue.FindStringSubmatchIndex(n.Body); m != nil {
				for _, v := range []struct{ kind, ref string }{{"schema-error-path-object-type", "@zzobj"}, {"schema-error-path-undefined-type", "@zznope"}} {
					t := fresh()
					x, par := idxOf(t, k)
					x.Body = n.Body[:m[2]] + v.ref + n.Body[m[3]:]
					if v.ref == "@zzobj" {
						t = append(t[:1:1], append([]*doc.Node{doc.N("TYPE", "@zzobj").WithBody("{\n  \"a\": 1\n}")}, t[1:]...)...)
					}
					emit(fault{kind: v.kind + "@Path", nodes: t, culprits: []*doc.Node{x}, injected: x, parent: par})
				}
			}
		}
		if kw == "PASTE" {
			t := fresh()
			x, par := idxOf(t, k)
			x.Params = []string{"@nope"}
			emit(fault{kind: "undefined-macro", nodes: t, culprits: []*doc.Node{x}, injected: x, parent: par})
		}
		if kw == "Tags" {
			t := fresh()
			x, par := idxOf(t, k)
			x.Params = append(x.Params, "@nope")
			culp := []*doc.Node{x, par}
			doc.Walk([]*doc.Node{par}, func(y *doc.Node, _ int, _ *doc.Node) { culp = append(culp, y) })
			emit(fault{kind: "undefined-tag", nodes: t, culprits: culp, injected: x, parent: par})
		}
		if isMethod(kw) || kw == "Method" {
			t := fresh()
			x, _ := idxOf(t, k)
			tg := doc.N("Tags", "@nope")
			x.Kids = append([]*doc.Node{tg}, x.Kids...)
			emit(fault{kind: "undefined-tag-added", nodes: t, culprits: []*doc.Node{tg, x}, injected: tg, parent: x})
		}
	}
}

// pathFirstValue finds the value of the first property of a literal Path body.
var pathFirstValue = regexp.MustCompile(`^\{\s*"[^"]+":\s*([^,\n/}]*[^,\n/} ])`)

func isMethod(kw string) bool {
	switch kw {
	case "GET", "POST", "PUT", "PATCH", "DELETE":
		return true
	}
	return false
}

func methodOrURL(kw string) string {
	if kw == "URL" {
		return "url-path"
	}
	return "method-path"
}

func runC11(c *fw.Ctx) {
	runRefcat(c, "C11")
	runDupNames(c)
	runFaults(c, "C11:", func(kind string) bool { return !strings.HasPrefix(kind, "schema-error-") })
}

// runFaults injects single faults into accepted pool documents (directly, through PASTE, through
// INCLUDE) and requires rejection located inside a directive that takes part in the fault.
func runFaults(c *fw.Ctx, sigPrefix string, keep func(kind string) bool) {
	runFaultsMode(c, sigPrefix, keep, false)
}

// runFaultsMode: with crashOnly (C01) nothing but a crash is judged, and every faulty document is
// also run with each of its top-level declarations moved, one at a time, into a file of its own
// (a diagnostic computed for one declaration and located in another then points past the end of a
// small file).
func runFaultsMode(c *fw.Ctx, sigPrefix string, keep func(kind string) bool, crashOnly bool) {
	dir := drv.NewDir(fw.Scratch("c11"))
	defer os.RemoveAll(filepath.Dir(dir.Path))
	defer dir.Close()
	opt := drv.Options{FixedSeed: true}
	seen := map[string]bool{}
	docSets(!c.Quick(), func(name0 string, blocks0 []doc.Block) {
		for _, reversed := range []bool{false, true} { // declarations in pool order and in the opposite order (use before declaration)
			name, blocks := name0, blocks0
			if reversed {
				if len(blocks0) < 2 {
					continue
				}
				name += " reversed"
				blocks = make([]doc.Block, len(blocks0))
				for i, b := range blocks0 {
					blocks[len(blocks0)-1-i] = b
				}
			}
			if c.Expired() {
				return
			}
			fresh := func() []*doc.Node { return doc.Assemble(blocks) }
			baseText := doc.Text(fresh())
			if seen[baseText] {
				continue
			}
			seen[baseText] = true
			baseOK := -1
			deliveries := []string{"direct", "paste", "include"}
			if crashOnly {
				deliveries = []string{"direct", "include"}
				for k := 1; k < len(fresh()); k++ {
					deliveries = append(deliveries, fmt.Sprintf("own-file:%d", k))
				}
			}
			for _, delivery := range deliveries {
				delivery := delivery
				injectFaults(fresh, func(f fault) { // fresh trees per delivery: deliveries edit the tree in place
					if !keep(f.kind) {
						return
					}
					for once := true; once; once = false {
						if !c.Next() {
							continue
						}
						if baseOK < 0 {
							baseOK = 0
							if run1(baseText).OK() {
								baseOK = 1
							}
						}
						if baseOK == 0 {
							continue
						}
						c.Describe(name + " " + f.kind + " " + delivery)
						// delivery
						nodes := f.nodes
						culprits := append([]*doc.Node{}, f.culprits...)
						files := map[string]*doc.Rendered{}
						// faults inside a never-pasted macro are dead code (not judged); inside a live macro
						// every PASTE on the way to it takes part in the fault
						dead, chain := macroContext(f.nodes, f.culprits)
						if dead {
							c.Count("not_judged_dead_macro", 1)
							continue
						}
						culprits = append(culprits, chain...)
						// what a culprit pastes is part of it: a diagnostic inside the body of a macro that is
						// pasted (also through other macros) below a culprit lies "inside" the culprit, as it
						// would if the body were written in place
						culprits = append(culprits, pastedMacros(f.nodes, culprits)...)
						switch delivery {
						case "paste":
							if f.injected == nil || f.injected.Kw == "MACRO" || f.injected.Kw == "JSIGHT" || f.injected.Kw == "TAG" || f.injected.Kw == "Tags" ||
								f.injected.Kw == "Protocol" || f.injected.Kw == "Method" || f.injected.Kw == "Params" || f.injected.Kw == "Result" ||
								(f.parent != nil && (f.parent.Kw == "Method" || f.parent.Kw == "TAG")) || strings.HasPrefix(f.kind, "missing-parameter-PASTE") {
								continue // not admitted inside a MACRO / PASTE not admitted at that place
							}
							ps := doc.N("PASTE", "@flt")
							if !replaceNode(&nodes, f.injected, ps) {
								continue
							}
							mac := doc.N("MACRO", "@flt").WithParen().WithKids(f.injected)
							nodes = append(nodes, mac)
							culprits = append(culprits, ps)
						default: // own-file:k - the k-th top-level declaration alone in a small file
							if !strings.HasPrefix(delivery, "own-file:") {
								break // "direct": the document as it is
							}
							var k int
							fmt.Sscanf(delivery, "own-file:%d", &k)
							if k >= len(nodes) || nodes[k].Kw == "JSIGHT" {
								continue
							}
							moved := nodes[k]
							cp := append([]*doc.Node{}, nodes...)
							cp[k] = doc.N("INCLUDE", "own.jst")
							nodes = cp
							files["own.jst"] = doc.Render([]*doc.Node{moved}, doc.DefaultStyle())
						case "include":
							if f.injected == nil || f.injected.Kw == "JSIGHT" {
								continue
							}
							inc := doc.N("INCLUDE", "flt.jst")
							if !replaceNode(&nodes, f.injected, inc) {
								continue
							}
							files["flt.jst"] = doc.Render([]*doc.Node{f.injected}, doc.DefaultStyle())
							culprits = append(culprits, inc)
						}
						files["root.jst"] = doc.Render(nodes, doc.DefaultStyle())
						c.Count("evaluations", 1)
						p := drv.Project{Root: "root.jst", Files: map[string]string{}}
						for fn, r := range files {
							p.Files[fn] = r.Text
						}
						if faultProjectTap != nil {
							faultProjectTap(name+" "+f.kind+" "+delivery, p)
							continue
						}
						c.Distinct(fmt.Sprint(p.Files))
						var o drv.Outcome
						if len(files) == 1 {
							o = drv.RunMem("root.jst", p.Files["root.jst"], opt)
						} else {
							o, _ = dir.Run(p, opt, false)
						}
						if o.Crashed() {
							if crashOnly {
								c.Violate("panic", sigPrefix+"panic:"+o.Site, fmt.Sprintf("%s, fault %s delivered %s: the library panicked: %s", name, f.kind, delivery, o.Panic), map[string]interface{}{"project": p})
							} else {
								c.Count("skipped_crash", 1)
							}
							continue
						}
						if crashOnly {
							if strings.HasPrefix(o.Msg, "runtime error:") {
								c.Violate("runtime-fault-as-diagnostic", sigPrefix+"runtime-error", fmt.Sprintf("%s, fault %s delivered %s: %s", name, f.kind, delivery, o.Short()), map[string]interface{}{"project": p})
							}
							continue
						}
						bad := ""
						if !o.Rejected() {
							bad = "the faulty document is " + o.Short()
						} else {
							in := false
							for fn, r := range files {
								if o.File != "" && filepath.Base(o.File) != fn {
									continue
								}
								for _, cn := range culprits {
									if sp := r.SpanOf(cn); sp != nil && o.Index >= sp.Begin && o.Index < sp.End {
										in = true
									}
								}
							}
							if !in {
								bad = fmt.Sprintf("rejected (%s) but %s:%d is outside every directive taking part in the fault", o.Msg, filepath.Base(o.File), o.Index)
							}
						}
						if bad == "" {
							c.Sample(f.kind, 1, map[string]interface{}{"doc": name, "fault": f.kind, "delivery": delivery, "diagnostic": o.Short()})
							continue
						}
						c.Violate("fault-not-caught", sigPrefix+strings.SplitN(f.kind, "@", 2)[0]+":"+delivery+":"+map[bool]string{true: "accepted", false: "mislocated"}[!o.Rejected()],
							fmt.Sprintf("%s, fault %s delivered %s: %s", name, f.kind, delivery, bad), map[string]interface{}{"project": p})
					}
				})
			}
		}
	})
}

// faultProjectTap, when set, receives every faulty project runFaultsMode builds instead of its
// own judgement (C02 judges them again under the other line-end conventions).
var faultProjectTap func(label string, p drv.Project)

// pastedMacros returns the MACRO definitions that the given nodes paste, directly or through other
// macros.
func pastedMacros(forest []*doc.Node, from []*doc.Node) []*doc.Node {
	defs := map[string]*doc.Node{}
	for _, n := range forest {
		if n.Kw == "MACRO" && len(n.Params) > 0 {
			defs[n.Params[0]] = n
		}
	}
	seen := map[*doc.Node]bool{}
	var out []*doc.Node
	var visit func(n *doc.Node)
	visit = func(n *doc.Node) {
		doc.Walk([]*doc.Node{n}, func(x *doc.Node, _ int, _ *doc.Node) {
			if x.Kw != "PASTE" || len(x.Params) == 0 {
				return
			}
			if m := defs[x.Params[0]]; m != nil && !seen[m] {
				seen[m] = true
				out = append(out, m)
				visit(m)
			}
		})
	}
	for _, n := range from {
		if n != nil {
			visit(n)
		}
	}
	return out
}

// replaceNode replaces the node old by repl wherever it is in the forest.
func replaceNode(nn *[]*doc.Node, old, repl *doc.Node) bool {
	for i, n := range *nn {
		if n == old {
			cp := append([]*doc.Node{}, (*nn)...)
			cp[i] = repl
			*nn = cp
			return true
		}
	}
	found := false
	var rec func(n *doc.Node)
	rec = func(n *doc.Node) {
		for i, k := range n.Kids {
			if k == old {
				n.Kids[i] = repl
				found = true
				return
			}
			rec(k)
		}
	}
	for _, n := range *nn {
		rec(n)
	}
	return found
}

// macroContext reports whether some culprit lies only inside a never-pasted macro body, and
// returns the live PASTE directives through which the macros holding culprits are reached.
func macroContext(nodes []*doc.Node, culprits []*doc.Node) (dead bool, chain []*doc.Node) {
	macros := map[string]*doc.Node{}
	for _, n := range nodes {
		if n.Kw == "MACRO" && len(n.Params) > 0 {
			macros[n.Params[0]] = n
		}
	}
	inMacro := map[*doc.Node]string{} // node -> macro name whose body holds it
	for name, m := range macros {
		doc.Walk(m.Kids, func(x *doc.Node, _ int, _ *doc.Node) { inMacro[x] = name })
	}
	// live pastes reaching each macro
	reach := map[string][]*doc.Node{}
	var visit func(nn []*doc.Node, via []*doc.Node, seen map[string]bool)
	visit = func(nn []*doc.Node, via []*doc.Node, seen map[string]bool) {
		for _, n := range nn {
			if n.Kw == "MACRO" {
				continue
			}
			if n.Kw == "PASTE" && len(n.Params) > 0 {
				name := n.Params[0]
				if m := macros[name]; m != nil && !seen[name] {
					v2 := append(append([]*doc.Node{}, via...), n)
					reach[name] = append(reach[name], v2...)
					seen[name] = true
					visit(m.Kids, v2, seen)
					delete(seen, name)
				}
			}
			visit(n.Kids, via, seen)
		}
	}
	visit(nodes, nil, map[string]bool{})
	anyLive := false
	anyMacro := false
	for _, cn := range culprits {
		name, ok := inMacro[cn]
		if !ok {
			if cn.Kw != "MACRO" {
				anyLive = true
			}
			continue
		}
		anyMacro = true
		if len(reach[name]) > 0 {
			anyLive = true
			chain = append(chain, reach[name]...)
		}
	}
	if anyMacro && len(chain) == 0 {
		// every macro-held culprit is in dead code; judged only if the fault is about the MACRO itself
		onlyMacroHeld := true
		for _, cn := range culprits {
			if _, ok := inMacro[cn]; !ok {
				onlyMacroHeld = false
			}
		}
		if onlyMacroHeld {
			return true, nil
		}
	}
	_ = anyLive
	return false, chain
}

// singletonVariant builds a second, different instance of a singleton child (nil if none is defined).
func singletonVariant(orig, par *doc.Node, whole string) *doc.Node {
	switch orig.Kw {
	case "Title":
		return doc.N("Title", "\"Another title\"")
	case "Version":
		return doc.N("Version", "9.9")
	case "Description":
		return doc.N("Description").WithBody("another text")
	case "Query":
		return doc.N("Query").WithBody("{\n  \"another\": 2\n}")
	case "Headers":
		return doc.N("Headers").WithBody("{\n  \"X-Another\": \"v\"\n}")
	case "Body":
		return doc.N("Body", "any")
	case "Path":
		// a parameter of the enclosing path that the first Path does not declare
		if len(par.Params) == 0 {
			return nil
		}
		pp, _ := refPathParams(par.Params[0])
		for _, p := range pp {
			if !strings.Contains(whole, "\""+p.name+"\":") { // declared nowhere in the document
				return doc.N("Path").WithBody("{\n  \"" + p.name + "\": 7\n}")
			}
		}
	}
	return nil
}

// adopts reports whether a directive written after prev (the last child so far) would become a
// child of prev, or of prev's own last descendants, instead of a sibling: prev is not
// parenthesised and its kind, or the kind of one of the last directives below it, admits x
// (the library's public admissibility table).
func adopts(prev, x *doc.Node) bool {
	xt, err := directive.NewDirectiveType(x.Kw)
	if err != nil {
		return false
	}
	for n := prev; n != nil; {
		if n.Paren {
			return false
		}
		if nt, err := directive.NewDirectiveType(n.Kw); err == nil && nt.IsAllowedForDirectiveContext(xt) {
			return true
		}
		if len(n.Kids) == 0 {
			return false
		}
		n = n.Kids[len(n.Kids)-1]
	}
	return false
}

// runDupNames: "two ... with one name" for EVERY name, not only the names the pool happens to use:
// all names of length 1..3 (thorough 4) over {a _ - 1 A . % ~ é} in every name-bearing declaration.
// A name whose single declaration is accepted must be rejected when it is declared twice, with the
// diagnostic inside one of the two declarations; for paths also when the second one is spelled
// with quotes.
func runDupNames(c *fw.Ctx) {
	alpha := []string{"a", "_", "-", "1", "A", ".", "%", "~", "é"}
	maxLen := 3
	if !c.Quick() {
		maxLen = 4
	}
	type kind struct {
		name   string
		decl   func(n string, second bool) string
		prefix string
	}
	kinds := []kind{
		{"TYPE", func(n string, _ bool) string { return "TYPE @" + n + " any\n" }, ""},
		{"ENUM", func(n string, _ bool) string { return "ENUM @" + n + "\n  [1]\n" }, ""},
		{"MACRO", func(n string, _ bool) string { return "MACRO @" + n + "\n(\n  200 any\n)\n" }, ""},
		{"SERVER", func(n string, _ bool) string { return "SERVER @" + n + "\n  BaseUrl \"http://x\"\n" }, ""},
		{"TAG", func(n string, _ bool) string { return "TAG @" + n + "\n" }, ""},
		{"method", func(n string, _ bool) string { return "GET /" + n + "\n  200 any\n" }, ""},
		{"method-quoted-second", func(n string, second bool) string {
			if second {
				return "GET \"/" + n + "\"\n  200 any\n"
			}
			return "GET /" + n + "\n  200 any\n"
		}, ""},
		{"URL", func(n string, second bool) string {
			if second {
				return "URL /" + n + "\n  POST\n    200 any\n"
			}
			return "URL /" + n + "\n  GET\n    200 any\n"
		}, ""},
		{"URL-method-twice", func(n string, second bool) string {
			if second {
				return "GET /" + n + "\n  200 any\n"
			}
			return "URL /" + n + "\n  GET\n    200 any\n"
		}, ""},
		{"rpc-method", func(n string, _ bool) string { return "  Method " + n + "\n    Params\n      {}\n" }, "URL /r\n  Protocol json-rpc-2.0\n"},
	}
	var rec func(prefix string, n int)
	rec = func(prefix string, n int) {
		if prefix != "" {
			for _, k := range kinds {
				if !c.Next() {
					continue
				}
				c.Count("evaluations", 1)
				head := "JSIGHT 0.3\n" + k.prefix
				one := head + k.decl(prefix, false)
				if !run1(one).OK() {
					c.Count("dup_names_single_declaration_not_accepted", 1)
					continue
				}
				mid := "TYPE @zz any\n"
				if k.prefix != "" {
					mid = ""
				}
				two := one + mid + k.decl(prefix, true)
				c.Distinct(two)
				o := run1(two)
				if o.Crashed() {
					c.Count("skipped_crash", 1)
					continue
				}
				b1, e1 := len(head), len(one)
				b2, e2 := len(one)+len(mid), len(two)
				switch {
				case !o.Rejected():
					c.Violate("fault-accepted", "C11:dup-name:"+k.name+":accepted", fmt.Sprintf("%s with the name %q declared twice: %s", k.name, prefix, o.Short()), map[string]interface{}{"text": two})
				case !(o.Index >= b1 && o.Index < e1 || o.Index >= b2 && o.Index < e2):
					c.Violate("fault-located-elsewhere", "C11:dup-name:"+k.name+":located", fmt.Sprintf("%s with the name %q declared twice: the diagnostic at %d (%s) is in neither declaration [%d,%d) [%d,%d)", k.name, prefix, o.Index, o.Msg, b1, e1, b2, e2), map[string]interface{}{"text": two})
				default:
					c.Sample("dup-name "+k.name, 1, map[string]interface{}{"text": two, "diagnostic": o.Short()})
				}
			}
		}
		if n == 0 {
			return
		}
		for _, a := range alpha {
			rec(prefix+a, n-1)
		}
	}
	rec("", maxLen)
}

func init() {
	faultTapHook = func(c *fw.Ctx, tap func(label string, p drv.Project)) {
		faultProjectTap = tap
		defer func() { faultProjectTap = nil }()
		runFaultsMode(c, "C02:nl:", func(kind string) bool { return true }, false)
	}
}
