//go:build verif

package checks

import (
	"fmt"
	"strings"
	"sync"
	"sync/atomic"
	"time"

	"verif/internal/escan"
	"verif/internal/fw"

	"github.com/jsightapi/jsight-api-go-library/scanner"
	"github.com/jsightapi/jsight-schema-go-library/fs"
	"github.com/jsightapi/jsight-schema-go-library/notations/jschema"
	"github.com/jsightapi/jsight-schema-go-library/rules/enum"
)

func init() {
	fw.Register(&fw.Check{
		ID: "C14", Level: "model_checking", InProcess: true,
		Rule: "explicit-state BFS over the real scanner.Next: a state is the scanner's abstract key (step function, top of step stack, event stack with capped distances, pending finds, parameter predicates, line-prefix/look-behind context); from every reachable state every token of the alphabet (all 256 bytes + atomic multi-byte tokens) is executed on a fresh scanner; a case is non-trivial when the run is error-free and emits at least one lexeme; distinct = distinct abstract states ; a parameter lexeme that begins with a quote is exactly one quoted value",
		Assume: []string{"partial parameter text is abstracted: its only lasting effect is on the three parameter predicates, each combination of which is reached through atomic parameter tokens",
			"schema/enum bodies are atomic tokens (the scanner hands the rest of the file to the schema library in one jump)",
			"step stack is keyed by its top 4 entries (the request/response body states leak one never-popped entry per Body child)"},
		Run: runC14, QuickCap: 8 * time.Minute, ThoroughCap: 40 * time.Minute,
	})
}

// LexViolation describes a broken lexical invariant.
type lexViolation struct {
	oracle, detail string
	pos            int // byte position that locates the defect
}

// checkLexemes applies the C14 invariants to one error-free run.
func checkLexemes(input string, lex []escan.Lex) *lexViolation {
	n := len(input)
	prevEnd := -1
	lastKeyword := ""
	for i, l := range lex {
		if l.Begin < 0 || l.Begin > n || l.End >= n || l.End < l.Begin-1 {
			return &lexViolation{"lexeme-bounds", fmt.Sprintf("lexeme #%d %s [%d:%d] is outside the input (len %d) or has its end before its begin", i, l.Type, l.Begin, l.End, n), l.Begin}
		}
		if l.Begin <= prevEnd {
			return &lexViolation{"lexeme-order", fmt.Sprintf("lexeme #%d %s [%d:%d] starts at or before the end (%d) of the previous lexeme", i, l.Type, l.Begin, l.End, prevEnd), l.Begin}
		}
		if l.End >= l.Begin {
			prevEnd = l.End
		}
		val := ""
		if l.End >= l.Begin {
			val = input[l.Begin : l.End+1]
		}
		switch l.Type {
		case scanner.Keyword:
			if !escan.KnownKeyword(val) {
				return &lexViolation{"keyword-known", fmt.Sprintf("keyword lexeme %q is not known to the directive table", val), l.Begin}
			}
			lastKeyword = val
		case scanner.Schema:
			// "as delimited by the schema library": the library, given the input from the lexeme's
			// first byte on (that is what a scanner can give it), must report exactly this length
			ln, err := safeLen(func() (uint, error) { return jschema.FromFile(fs.NewFile("", []byte(input[l.Begin:]))).Len() })
			if err != nil || int(ln) != len(val) || len(val) == 0 {
				return &lexViolation{"schema-delimited", fmt.Sprintf("schema lexeme %q is not the value the schema library delimits at that position (len=%d, library reports=%d, err=%v)", val, len(val), ln, err), l.Begin}
			}
		case scanner.Enum:
			ln, err := safeLen(func() (uint, error) { return enum.FromFile(fs.NewFile("", []byte(input[l.Begin:]))).Len() })
			if err != nil || int(ln) != len(val) || len(val) == 0 {
				return &lexViolation{"enum-delimited", fmt.Sprintf("enum lexeme %q is not exactly one value for the schema library (len=%d, reported=%d, err=%v)", val, len(val), ln, err), l.Begin}
			}
		case scanner.Text:
			if lastKeyword != "Description" {
				if !oneRegex(val) {
					return &lexViolation{"regex-delimited", fmt.Sprintf("regex lexeme %q is not exactly one /…/ value", val), l.Begin}
				}
			}
		case scanner.Parameter:
			// a parameter that begins with a quote is one complete quoted value: it ends with the
			// closing quote, has no bare quote inside, and every backslash escapes a quote or a
			// backslash (whatever follows the value is the next lexeme's or the skipper's business)
			if len(val) > 0 && val[0] == '"' && !oneQuoted(val) {
				return &lexViolation{"quoted-parameter-delimited", fmt.Sprintf("parameter lexeme %q begins with a quote but is not exactly one quoted value", val), l.Begin}
			}
		case scanner.ContextExplicitOpening:
			if val != "(" {
				return &lexViolation{"paren-lexeme", fmt.Sprintf("context-opening lexeme is %q", val), l.Begin}
			}
		case scanner.ContextExplicitClosing:
			if val != ")" {
				return &lexViolation{"paren-lexeme", fmt.Sprintf("context-closing lexeme is %q", val), l.Begin}
			}
		}
	}
	return checkGaps(input, lex)
}

func safeLen(f func() (uint, error)) (n uint, err error) {
	defer func() {
		if r := recover(); r != nil {
			err = fmt.Errorf("panic: %v", r)
		}
	}()
	return f()
}

func oneQuoted(v string) bool {
	if len(v) < 2 || v[0] != '"' || v[len(v)-1] != '"' {
		return false
	}
	for i := 1; i < len(v)-1; i++ {
		switch v[i] {
		case '\\':
			if i+1 >= len(v)-1 || (v[i+1] != '"' && v[i+1] != '\\') {
				return false
			}
			i++
		case '"':
			return false
		}
	}
	return true
}

func oneRegex(v string) bool {
	if len(v) < 3 || v[0] != '/' || v[len(v)-1] != '/' {
		return false
	}
	esc := false
	for i := 1; i < len(v)-1; i++ {
		c := v[i]
		switch {
		case esc:
			esc = false
		case c == '\\':
			esc = true
		case c == '/':
			return false
		}
	}
	return !esc
}

// checkGaps verifies that every byte outside all lexemes is trivia: blanks, line ends, comment
// text, or an annotation delimiter adjacent to an annotation lexeme. It is an independent
// skipper: it knows nothing about the scanner's states.
func checkGaps(input string, lex []escan.Lex) *lexViolation {
	pos := 0
	for i := 0; i <= len(lex); i++ {
		gapEnd := len(input)
		var next *escan.Lex
		if i < len(lex) {
			next = &lex[i]
			gapEnd = next.Begin
		}
		var prev *escan.Lex
		if i > 0 {
			prev = &lex[i-1]
		}
		if gapEnd < pos {
			gapEnd = pos
		}
		if v, at := triviaGap(input, pos, gapEnd, prev, next); v != "" {
			return &lexViolation{"skipped-content", fmt.Sprintf("bytes %d..%d %q between lexemes are not trivia: %s", pos, gapEnd, clip(input[pos:gapEnd], 80), v), at}
		}
		if next != nil && next.End+1 > pos {
			pos = next.End + 1
		}
		if next != nil && next.End < next.Begin && next.Begin > pos {
			pos = next.Begin
		}
	}
	return nil
}

// triviaGap parses in[a:b] as trivia. Comments are parsed leniently: "###" may open a block
// comment (closed by the next "###") or, like any '#', a comment to the end of the line; the gap
// is trivia if either reading consumes it. Returns "" or a description and the offending position.
func triviaGap(in string, a, b int, prev, next *escan.Lex) (string, int) {
	i := a
	// a multi-line annotation is closed by "*/" right after the annotation lexeme
	if prev != nil && prev.Type == scanner.Annotation && prev.Begin >= 2 && in[prev.Begin-2:prev.Begin] == "/*" {
		if i+2 <= b && in[i:i+2] == "*/" {
			i += 2
		} else {
			return "multi-line annotation is not followed by */", i
		}
	}
	memo := map[int]bool{}
	worst := i
	worstWhy := ""
	var ok func(i int) bool
	ok = func(i int) bool {
		for i < b {
			c := in[i]
			switch {
			case c == ' ' || c == '\t' || c == '\n' || c == '\r':
				i++
			case c == '#':
				if done, seen := memo[i]; seen {
					return done
				}
				start := i
				res := false
				if strings.HasPrefix(in[i:b], "###") {
					if j := strings.Index(in[i+3:b], "###"); j >= 0 {
						res = ok(i + 3 + j + 3)
					}
				}
				if !res {
					j := i
					for j < b && in[j] != '\n' && in[j] != '\r' {
						j++
					}
					res = ok(j)
				}
				memo[start] = res
				return res
			case c == '/':
				// annotation delimiter: must be directly followed by the annotation lexeme
				if i+2 == b && next != nil && next.Type == scanner.Annotation && (in[i:i+2] == "//" || in[i:i+2] == "/*") {
					i += 2
				} else {
					if i >= worst {
						worst, worstWhy = i, fmt.Sprintf("'/' at %d is not an annotation delimiter adjacent to an annotation lexeme", i)
					}
					return false
				}
			default:
				if i >= worst {
					worst, worstWhy = i, fmt.Sprintf("byte %q at %d", c, i)
				}
				return false
			}
		}
		return true
	}
	if ok(i) {
		return "", 0
	}
	return worstWhy, worst
}

func clip(s string, n int) string {
	if len(s) > n {
		return s[:n] + "…"
	}
	return s
}

func runC14(c *fw.Ctx) {
	alpha := escan.Alphabet(!c.Quick())
	var errFree, nontrivial, panics, samples int64
	var sigSeen sync.Map
	visit := func(input string, boundary int, r *escan.Run) {
		if r.Panic != "" {
			atomic.AddInt64(&panics, 1)
			sig := "scanner-panic:" + firstWords(r.Panic, 6)
			if n, _ := sigSeen.LoadOrStore(sig, new(int64)); atomic.AddInt64(n.(*int64), 1) <= 3 {
				if escan.Exec(input, len(input)).Panic != "" { // deterministic?
					c.Violate("scanner-panic", sig, "the scanner panicked: "+r.Panic, map[string]interface{}{"input": input})
				}
			}
			return
		}
		if r.Err != "" {
			return
		}
		atomic.AddInt64(&errFree, 1)
		if len(r.Lex) > 0 {
			atomic.AddInt64(&nontrivial, 1)
		}
		if v := checkLexemes(input, r.Lex); v != nil {
			sig := v.oracle + ":" + stepAt(input, v.pos)
			if n, _ := sigSeen.LoadOrStore(sig, new(int64)); atomic.AddInt64(n.(*int64), 1) <= 3 {
				again := escan.Exec(input, len(input))
				if v2 := checkLexemes(input, again.Lex); v2 != nil && v2.oracle == v.oracle {
					c.Violate(v.oracle, sig, v.detail, map[string]interface{}{"input": input, "lexemes": fmt.Sprint(r.Lex)})
				}
			} else {
				c.Count("violations_raw", 1)
			}
		}
		if len(r.Lex) >= 3 && atomic.LoadInt64(&samples) < 4 {
			atomic.AddInt64(&samples, 1)
			c.Sample("error-free run", 4, map[string]interface{}{"input": input, "lexemes": fmt.Sprint(r.Lex)})
		}
	}
	g, saturated := escan.Explore(alpha, visit, 400000, c.Expired)
	c.Count("transitions", g.Transitions)
	c.Count("evaluations", g.Transitions)
	c.Note("states", len(g.Keys))
	c.Note("alphabet_size", len(alpha))
	c.Note("bfs_depth", g.MaxDepth)
	c.Note("error_free_runs_checked", errFree)
	c.Note("error_free_runs_with_lexemes", nontrivial)
	c.Note("scanner_panics", panics)
	c.Note("saturated", saturated)
	c.Note("pruned_schema_extensions", g.Pruned)
	for _, k := range g.Keys {
		c.Distinct(k)
	}
	if !saturated {
		c.NotExhaustive("state cap or time cap reached before the BFS saturated")
	}
	// key soundness: second representatives must behave like the first
	compared, dis, libDis := escan.CrossCheck(g, c.Expired)
	c.Note("key_soundness_differences_attributed_to_schema_library_lookahead", libDis)
	c.Note("key_soundness_comparisons", compared)
	c.Note("key_soundness_disagreements", len(dis))
	c.Count("transitions", compared)
	c.Count("evaluations", compared)
	if len(dis) > 0 {
		var ss []string
		for i, d := range dis {
			if i >= 8 {
				break
			}
			ss = append(ss, fmt.Sprintf("rep1=%q rep2=%q tok=%q: %s", d.Rep1, d.Rep2, d.Token, d.What))
		}
		c.Note("key_soundness_examples", ss)
		c.NotExhaustive("state key merges prefixes with different futures (see key_soundness_examples); coverage statement is for the representatives explored")
	}
	c.Note("traces_validated_against_impl", g.Transitions+compared)
	c.Sample("state", 3, map[string]interface{}{"key": g.Keys[len(g.Keys)/2], "representative": g.Rep[len(g.Keys)/2]})
}

func firstWords(s string, n int) string {
	f := strings.Fields(s)
	if len(f) > n {
		f = f[:n]
	}
	return strings.Join(f, " ")
}

// stepAt names the step function that is about to evaluate the byte at pos: the locator of a
// lexical defect (a different defect is located in another step function).
func stepAt(input string, pos int) string {
	if pos > len(input) {
		pos = len(input)
	}
	if pos < 0 {
		pos = 0
	}
	k := escan.Exec(input, pos).KeyAt
	if i := strings.IndexByte(k, '|'); i > 0 {
		k = k[:i]
	}
	return k
}

func init() {
	fw.DebugCmds["lex"] = func(args []string) {
		in := args[0]
		for b := 0; b <= len(in); b++ {
			r := escan.Exec(in, b)
			fmt.Printf("%3d %q key=%s\n", b, in[:b], r.KeyAt)
		}
		r := escan.Exec(in, len(in))
		fmt.Println("lexemes:", r.Lex, "err:", r.Err, "panic:", r.Panic)
		if r.Err == "" && r.Panic == "" {
			fmt.Println("oracle:", checkLexemes(in, r.Lex))
		}
	}
}

func init() {
	fw.DebugCmds["scanstates"] = func(args []string) {
		g, _ := escan.Explore(escan.Alphabet(false), nil, 400000, nil)
		for i, k := range g.Keys {
			if strings.Contains(k, args[0]) {
				fmt.Printf("%q  <- %q\n", k, g.Rep[i])
			}
		}
	}
}
