//go:build verif

package checks

import (
	"fmt"
	"strings"
	"time"

	"verif/internal/drv"
	"verif/internal/fw"
	"verif/internal/jsonx"

	"github.com/jsightapi/jsight-api-go-library/core"
)

func init() {
	fw.Register(&fw.Check{
		ID: "C15", Level: "model_checking",
		Rule:   "descriptions: ALL texts of 1..3 (quick) / 1..4 (thorough) lines over a line alphabet {empty, a, indented 1/2/tab, inner blanks, trailing blank, '# a', '(x)', 'x)', keyword-looking words inside a line, lines starting with digits that are not a response code} x line end {LF, CRLF, CR} x every description host (INFO, HTTP method, JSON-RPC method, TAG) x what follows the description (texts of <= 2 lines: every kind of next line of that host - sibling, directive of an enclosing block, bare keywords of every length, end of input) x {bare, parenthesised} x base indentation {2, 4, tab}: catalog text = reference normalisation of the generator's text, bare = parenthesised, blank text rejected, normalising the result again changes nothing (hooked normaliser); annotations: ALL texts of length 0..4 (quick) / 0..5 (thorough) over {a, space, tab, *, /, ., newline} on every annotation-bearing directive in the // and /* */ spellings: catalog annotation = reference whitespace collapse, both spellings equal; non-trivial = text with more than one line / with a blank or delimiter character; distinct = distinct (host, spelling, text) ; the line after a description: also a minimal directive of EVERY kind, derived from the keyword table, kept when the document without the Description is accepted",
		Assume: []string{"not judged (the sentence leaves them open): whitespace-only lines inside a text, trailing blanks of the last line, texts a bare spelling cannot express (lines starting with a keyword, a response code or a parenthesis)"},
		Run:    runC15, QuickCap: 8 * time.Minute, ThoroughCap: 40 * time.Minute,
	})
}

// refDescription: LF line ends, surrounding blank lines removed, common indentation removed.
func refDescription(lines []string) string {
	ls := append([]string{}, lines...)
	for len(ls) > 0 && ls[0] == "" {
		ls = ls[1:]
	}
	for len(ls) > 0 && ls[len(ls)-1] == "" {
		ls = ls[:len(ls)-1]
	}
	if len(ls) == 0 {
		return ""
	}
	prefix := ""
	first := true
	for _, l := range ls {
		if l == "" {
			continue
		}
		ind := l[:len(l)-len(strings.TrimLeft(l, " \t"))]
		if first {
			prefix, first = ind, false
			continue
		}
		for !strings.HasPrefix(ind, prefix) {
			prefix = prefix[:len(prefix)-1]
		}
	}
	out := make([]string, len(ls))
	for i, l := range ls {
		out[i] = strings.TrimPrefix(l, prefix)
	}
	return strings.Join(out, "\n")
}

func refAnnotation(s string) string { return strings.Join(strings.Fields(s), " ") }

type descHost struct {
	name string
	doc  func(descBlock string) string // descBlock is the rendered Description directive at indentation 1 level ("  ")
	get  func(cat *jsonx.V) *jsonx.V
	alt  bool // an alternative terminator: explored against texts of at most two lines
}

func descHosts() []descHost {
	first := func(c *jsonx.V, coll string) *jsonx.V {
		v := c.Get(coll)
		if v == nil || len(v.Vals) == 0 {
			return nil
		}
		return v.Vals[0]
	}
	hosts := []descHost{
		{"INFO", func(d string) string { return "JSIGHT 0.3\nINFO\n  Title \"T\"\n" + d + "TYPE @after any\n" },
			func(c *jsonx.V) *jsonx.V { return c.Path("info", "description") }, false},
		{"HTTP", func(d string) string { return "JSIGHT 0.3\nGET /h\n" + d + "  200 any\n" },
			func(c *jsonx.V) *jsonx.V { return first(c, "interactions").Get("description") }, false},
		{"RPC", func(d string) string {
			return "JSIGHT 0.3\nURL /r\n  Protocol json-rpc-2.0\n  Method m\n" + strings.ReplaceAll(d, "\n  ", "\n    ")[0:0] + indentBlock(d, "  ") + "    Params\n      {}\n"
		}, func(c *jsonx.V) *jsonx.V { return first(c, "interactions").Get("description") }, false},
		{"TAG", func(d string) string { return "JSIGHT 0.3\nTAG @g\n" + d + "GET /t\n  Tags @g\n  200 any\n" },
			func(c *jsonx.V) *jsonx.V { return c.Path("tags", "@g", "description") }, false},
	}
	// what follows the description ("terminator"): every kind of line that may come next in that
	// host - a sibling, a directive of an enclosing block, a bare keyword of every length, a
	// comment-free end of input. Explored against the shorter texts (deviation bound).
	alt := func(name, prefix string, descIndent string, get func(c *jsonx.V) *jsonx.V, terms ...string) {
		for i, t := range terms {
			t := t
			hosts = append(hosts, descHost{fmt.Sprintf("%s/next%d", name, i), func(d string) string { return prefix + indentBlock(d, descIndent) + t }, get, true})
		}
	}
	httpGet := func(c *jsonx.V) *jsonx.V {
		if in := c.Get("interactions"); in != nil {
			if e := in.Get("http GET /h"); e != nil {
				return e.Get("description")
			}
		}
		return nil
	}
	alt("HTTP-in-URL", "JSIGHT 0.3\nURL /h\n  GET\n", "  ", httpGet,
		"    200 any\n", "  PUT\n", "  PUT\n    200 any\n", "  POST // note\n", "  PATCH\n", "  DELETE\n    204 empty\n", "    Query\n      {}\n",
		"    Request any\n", "TYPE @after any\n", "GET /other\n  200 any\n", "URL /other\n", "", "    404 any\n    200 any\n")
	alt("HTTP-top", "JSIGHT 0.3\nGET /h\n", "", httpGet,
		"  Request any\n", "POST /h\n", "ENUM @e\n  [1]\n", "TAG @x\n", "", "SERVER @s\n  BaseUrl \"http://x\"\n", "MACRO @m\n(\n  200 any\n)\n")
	alt("INFO", "JSIGHT 0.3\nINFO\n  Title \"T\"\n", "", func(c *jsonx.V) *jsonx.V { return c.Path("info", "description") },
		"  Version 1\n", "", "GET /x\n  200 any\n", "URL /x\n", "TAG @x\n")
	alt("TAG", "JSIGHT 0.3\nTAG @g\n", "", func(c *jsonx.V) *jsonx.V { return c.Path("tags", "@g", "description") },
		"TAG @h\n", "  TAG @sub\n", "", "URL /t\n  GET\n    200 any\n", "PUT /t\n")
	alt("RPC", "JSIGHT 0.3\nURL /r\n  Protocol json-rpc-2.0\n  Method m\n", "  ", func(c *jsonx.V) *jsonx.V { return first(c, "interactions").Get("description") },
		"    Result\n      {}\n", "  Method n\n", "", "TYPE @after any\n", "URL /r2\n  Protocol json-rpc-2.0\n  Method k\n")
	// the same, derived from the keyword table instead of written by hand: after the description
	// comes a minimal directive of EVERY kind (the token texts of C06), with the declarations it
	// needs at the end of the document; kept when the document without the Description is accepted
	// (so the only thing the Description adds is itself)
	tails := []string{"TAG @g\nMACRO @m\n(\n  200 any\n)\n", "TAG @g\n", "MACRO @m\n(\n  200 any\n)\n", ""}
	gen := func(name, prefix, descIndent string, get func(c *jsonx.V) *jsonx.V) {
		for _, t := range ctxAlphabet() {
			if t.name == "JSIGHT" || t.name == "Description" || t.name == "(" || t.name == ")" {
				continue
			}
			for _, ind := range []string{descIndent + "  ", ""} {
				line := indentBlock(t.text+"\n", ind)
				found := false
				for _, tail := range tails {
					term := line + tail
					if run1(prefix + term).OK() {
						hosts = append(hosts, descHost{fmt.Sprintf("%s/then-%s@%d", name, t.name, len(ind)), func(d string) string { return prefix + indentBlock(d, descIndent) + term }, get, true})
						found = true
						break
					}
				}
				if found {
					break // indentation does not nest; one spelling of the next line per kind
				}
			}
		}
	}
	gen("HTTP-in-URL", "JSIGHT 0.3\nURL /h\n  GET\n", "  ", httpGet)
	gen("HTTP-top", "JSIGHT 0.3\nGET /h\n", "", httpGet)
	gen("INFO", "JSIGHT 0.3\nINFO\n  Title \"T\"\n", "", func(c *jsonx.V) *jsonx.V { return c.Path("info", "description") })
	gen("TAG", "JSIGHT 0.3\nTAG @g\n", "", func(c *jsonx.V) *jsonx.V { return c.Path("tags", "@g", "description") })
	gen("RPC", "JSIGHT 0.3\nURL /r\n  Protocol json-rpc-2.0\n  Method m\n", "  ", func(c *jsonx.V) *jsonx.V { return first(c, "interactions").Get("description") })
	return hosts
}

func indentBlock(block, by string) string {
	ls := strings.SplitAfter(block, "\n")
	var b strings.Builder
	for _, l := range ls {
		if l == "" {
			continue
		}
		if strings.TrimRight(l, "\r\n") == "" {
			b.WriteString(l) // empty lines stay empty
			continue
		}
		b.WriteString(by + l)
	}
	return b.String()
}

var keywordStarts = []string{"JSIGHT", "INFO", "Title", "Version", "Description", "SERVER", "BaseUrl", "URL", "GET", "POST", "PUT", "PATCH", "DELETE", "Body", "Request",
	"Path", "Headers", "Query", "TYPE", "ENUM", "MACRO", "PASTE", "INCLUDE", "Protocol", "Method", "Params", "Result", "TAG", "Tags"}

func bareExpressible(line string) bool {
	t := strings.TrimLeft(line, " \t")
	if t == "" {
		return true
	}
	if t[0] == '(' || t[0] == ')' {
		return false
	}
	if len(t) >= 3 && t[0] >= '1' && t[0] <= '5' && t[1] >= '0' && t[1] <= '9' && t[2] >= '0' && t[2] <= '9' {
		return false
	}
	for _, k := range keywordStarts {
		if strings.HasPrefix(t, k) {
			return false
		}
	}
	return true
}

func runC15(c *fw.Ctx) {
	opt := drv.Options{FixedSeed: true}
	lineAlpha := []string{"", "a", " b", "  c", "\td", "e f", "g ", "# h", "(i)", "j)", "k GET x", "l 200", "é", "  ", "\t", "25 m", "4x4 n"}
	maxLines := 3
	annLen := 4
	if !c.Quick() {
		maxLines, annLen = 4, 5
	}
	hosts := descHosts()
	var lines []string
	var rec func(n int, f func())
	rec = func(n int, f func()) {
		if len(lines) > 0 {
			f()
		}
		if n == 0 {
			return
		}
		for _, l := range lineAlpha {
			lines = append(lines, l)
			rec(n-1, f)
			lines = lines[:len(lines)-1]
		}
	}
	rec(maxLines, func() {
		if c.Expired() {
			return
		}
		// the last non-empty line must not end in a blank (not judged)
		lastNE := ""
		for _, l := range lines {
			if l != "" {
				lastNE = l
			}
		}
		if strings.HasSuffix(lastNE, " ") {
			return
		}
		want := refDescription(lines)
		// a line of blanks only: whether it counts as a blank line is left open by the sentence, so
		// the normal form is not judged for such texts; that both spellings agree and that the
		// result is stable under normalising again is
		loose := false
		for _, l := range lines {
			if l != "" && strings.TrimSpace(l) == "" {
				loose = true
			}
		}
		bareOK := true
		for _, l := range lines {
			if !bareExpressible(l) {
				bareOK = false
			}
		}
		for _, nl := range []string{"\n", "\r\n", "\r"} {
			for _, base := range []string{"    ", "  ", "\t\t"} {
				if nl != "\n" && base != "    " {
					continue // line-end variants with the default indentation only
				}
				for _, h := range hosts {
					if h.alt && (len(lines) > 2 || base != "    ") {
						continue
					}
					if !c.Next() {
						continue
					}
					c.Count("evaluations", 1)
					render := func(paren bool) string {
						var b strings.Builder
						b.WriteString("  Description\n")
						// the parentheses' own lines are indented like the text: with tabs where the text is
						parenInd := "  "
						if strings.HasPrefix(base, "\t") {
							parenInd = "\t"
						}
						if paren {
							b.WriteString(parenInd + "(\n")
						}
						for _, l := range lines {
							if l == "" {
								b.WriteString("\n")
							} else {
								b.WriteString(base + l + "\n")
							}
						}
						if paren {
							b.WriteString(parenInd + ")\n")
						}
						text := h.doc(b.String())
						if nl != "\n" {
							text = strings.ReplaceAll(text, "\n", nl)
						}
						return text
					}
					results := map[bool]struct {
						o   drv.Outcome
						val string
						has bool
					}{}
					for _, paren := range []bool{false, true} {
						if !paren && !bareOK {
							continue
						}
						text := render(paren)
						o := drv.RunMem("root.jst", text, opt)
						if o.Crashed() {
							c.Count("skipped_crash", 1)
							continue
						}
						val, has := "", false
						if o.OK() {
							if cat, _, err := jsonx.Parse([]byte(o.JSON)); err == nil {
								if v := h.get(cat); v != nil {
									val, has = v.S, true
								}
							}
						}
						results[paren] = struct {
							o   drv.Outcome
							val string
							has bool
						}{o, val, has}
						c.Distinct(fmt.Sprintf("%s|%v|%q|%q|%q", h.name, paren, nl, base, lines))
						sp := map[bool]string{false: "bare", true: "paren"}[paren]
						if loose && !o.OK() {
							continue
						}
						if want == "" && !loose {
							if !o.Rejected() {
								c.Violate("blank-description-accepted", "C15:blank:"+h.name+":"+sp, fmt.Sprintf("%s, %s spelling, blank text %q: %s", h.name, sp, lines, o.Short()), map[string]interface{}{"text": text})
							}
							continue
						}
						switch {
						case !o.OK():
							c.Violate("description-rejected", "C15:rejected:"+sp+":"+firstWordsN(o.Msg, 3), fmt.Sprintf("%s, %s spelling, lines %q: %s", h.name, sp, lines, o.Short()), map[string]interface{}{"text": text})
						case !has:
							c.Violate("description-missing", "C15:missing:"+h.name+":"+sp, fmt.Sprintf("%s, %s spelling, lines %q: accepted but no description in the catalog", h.name, sp, lines), map[string]interface{}{"text": text})
						case val != want && !loose:
							c.Violate("description-text", "C15:text:"+sp+":"+descClass(lines, nl), fmt.Sprintf("%s, %s spelling, line end %q, lines %q: catalog has %q, reference %q", h.name, sp, nl, lines, val, want), map[string]interface{}{"text": text})
						default:
							// normalising twice changes nothing: the catalog text written as a (parenthesised)
							// description again reads back as itself; and the normaliser itself is stable on
							// it unless the text looks like a parenthesised block
							var b2 strings.Builder
							b2.WriteString("  Description\n  (\n")
							for _, l := range strings.Split(val, "\n") {
								if l == "" {
									b2.WriteString("\n")
								} else {
									b2.WriteString("    " + l + "\n")
								}
							}
							b2.WriteString("  )\n")
							t2 := h.doc(b2.String())
							o2 := drv.RunMem("root.jst", t2, opt)
							v2 := ""
							if o2.OK() {
								if cat, _, err := jsonx.Parse([]byte(o2.JSON)); err == nil {
									if v := h.get(cat); v != nil {
										v2 = v.S
									}
								}
							}
							if !o2.Crashed() && v2 != val {
								c.Violate("description-not-idempotent", "C15:idempotent:"+descClass(lines, nl), fmt.Sprintf("%s: catalog text %q written as a description again gives %s %q", h.name, val, o2.Kind, v2), map[string]interface{}{"text": t2})
							}
							if tv := strings.TrimSpace(val); !(strings.HasPrefix(tv, "(") && strings.HasSuffix(tv, ")")) { // (a text that, blanks aside, looks like a parenthesised block is read as one by the function; through the API that cannot happen)
								if again, err := core.VerifDescription([]byte(val)); err != nil || string(again) != val {
									c.Violate("normaliser-not-idempotent", "C15:idempotent-fn", fmt.Sprintf("normalising %q again gives %q (%v)", val, again, err), map[string]interface{}{"value": val})
								}
							}
							if len(lines) > 1 {
								c.Sample("description "+h.name, 1, map[string]interface{}{"lines": lines, "line_end": nl, "paren": paren, "catalog": val})
							}
						}
					}
					if b, ok := results[false]; ok {
						if p, ok := results[true]; ok && b.o.OK() && p.o.OK() && b.val != p.val {
							c.Violate("bare-vs-paren", "C15:bare-vs-paren:"+descClass(lines, nl), fmt.Sprintf("%s lines %q: bare gives %q, parenthesised gives %q", h.name, lines, b.val, p.val), map[string]interface{}{"lines": lines})
						}
					}
				}
			}
		}
	})

	// annotations
	type annHost struct {
		name string
		doc  func(ann string) string
		get  func(c *jsonx.V) *jsonx.V
	}
	firstI := func(c *jsonx.V) *jsonx.V {
		v := c.Get("interactions")
		if v == nil || len(v.Vals) == 0 {
			return nil
		}
		return v.Vals[0]
	}
	ahosts := []annHost{
		{"GET", func(a string) string { return "JSIGHT 0.3\nGET /a" + a + "\n  200 any\n" }, func(c *jsonx.V) *jsonx.V { return firstI(c).Get("annotation") }},
		{"TYPE", func(a string) string { return "JSIGHT 0.3\nTYPE @t" + a + "\n  {}\n" }, func(c *jsonx.V) *jsonx.V { return c.Path("userTypes", "@t", "annotation") }},
		{"SERVER", func(a string) string { return "JSIGHT 0.3\nSERVER @s" + a + "\n  BaseUrl \"http://x\"\n" }, func(c *jsonx.V) *jsonx.V { return c.Path("servers", "@s", "annotation") }},
		{"ENUM", func(a string) string { return "JSIGHT 0.3\nENUM @e" + a + "\n  [1]\n" }, func(c *jsonx.V) *jsonx.V { return c.Path("userEnums", "@e", "annotation") }},
		{"response", func(a string) string { return "JSIGHT 0.3\nGET /a\n  200" + a + "\n    {}\n" }, func(c *jsonx.V) *jsonx.V {
			r := firstI(c).Get("responses")
			if r == nil || len(r.A) == 0 {
				return nil
			}
			return r.A[0].Get("annotation")
		}},
		{"Method", func(a string) string { return "JSIGHT 0.3\nURL /r\n  Protocol json-rpc-2.0\n  Method m" + a + "\n" }, func(c *jsonx.V) *jsonx.V { return firstI(c).Get("annotation") }},
	}
	annAlpha := []string{"a", " ", "\t", "*", "/", ".", "\n"}
	var arec func(prefix string, n int, f func(s string))
	arec = func(prefix string, n int, f func(s string)) {
		f(prefix)
		if n == 0 {
			return
		}
		for _, a := range annAlpha {
			arec(prefix+a, n-1, f)
		}
	}
	arec("", annLen, func(s string) {
		if c.Expired() {
			return
		}
		want := refAnnotation(s)
		for _, h := range ahosts {
			if !c.Next() {
				continue
			}
			c.Count("evaluations", 1)
			vals := map[string]string{}
			for _, sp := range []string{"//", "/*"} {
				var src string
				if sp == "//" {
					if strings.Contains(s, "\n") {
						continue
					}
					src = " //" + s
				} else {
					if strings.Contains(s, "*/") {
						continue // would close the annotation early (a text ending in '*' does not: "a**/" closes at its last two bytes)
					}
					src = " /*" + s + "*/"
				}
				text := h.doc(src)
				o := drv.RunMem("root.jst", text, opt)
				if o.Crashed() {
					c.Count("skipped_crash", 1)
					continue
				}
				c.Distinct(h.name + sp + s)
				if !o.OK() {
					c.Violate("annotation-rejected", "C15:ann-rejected:"+sp+":"+firstWordsN(o.Msg, 3), fmt.Sprintf("%s%s: %s", h.name, src, o.Short()), map[string]interface{}{"text": text})
					continue
				}
				cat, _, err := jsonx.Parse([]byte(o.JSON))
				if err != nil {
					continue
				}
				got := ""
				if v := h.get(cat); v != nil {
					got = v.S
				}
				vals[sp] = got
				if got != want {
					c.Violate("annotation-text", "C15:ann-text:"+sp+":"+annClass(s), fmt.Sprintf("%s%q: catalog annotation %q, reference %q", h.name, src, got, want), map[string]interface{}{"text": text})
				} else if strings.ContainsAny(s, " \t\n") {
					c.Sample("annotation "+sp, 1, map[string]interface{}{"host": h.name, "source": src, "catalog": got})
				}
			}
			if a, ok := vals["//"]; ok {
				if b, ok := vals["/*"]; ok && a != b {
					c.Violate("annotation-spellings-differ", "C15:ann-spellings:"+annClass(s), fmt.Sprintf("%s text %q: // gives %q, /* */ gives %q", h.name, s, a, b), map[string]interface{}{"text": s})
				}
			}
		}
	})
}

func descClass(lines []string, nl string) string {
	cl := []string{}
	if len(lines) > 1 {
		cl = append(cl, "multi")
	}
	for _, l := range lines {
		if l == "" {
			cl = append(cl, "blankline")
			break
		}
	}
	for _, l := range lines {
		if strings.HasPrefix(l, " ") || strings.HasPrefix(l, "\t") {
			cl = append(cl, "indented")
			break
		}
	}
	for _, l := range lines {
		if strings.ContainsAny(l, "()#") {
			cl = append(cl, "special")
			break
		}
	}
	if nl != "\n" {
		cl = append(cl, fmt.Sprintf("%q", nl))
	}
	return strings.Join(cl, "+")
}

func annClass(s string) string {
	cl := []string{}
	if strings.ContainsAny(s, "*/") {
		cl = append(cl, "delim")
	}
	if strings.Contains(s, "\n") {
		cl = append(cl, "newline")
	}
	if strings.Contains(s, "\t") {
		cl = append(cl, "tab")
	}
	if strings.TrimSpace(s) == "" {
		cl = append(cl, "blank")
	}
	return strings.Join(cl, "+")
}
