//go:build verif

package checks

import (
	"encoding/json"
	"fmt"
	"os"
	"path/filepath"
	"sort"
	"strings"

	"verif/internal/escan"
	"verif/internal/fw"
)

// The scanner-graph complement of C05 (DESIGN §5 C05): on the complete E-SCAN state graph the
// coarsest bisimulation is computed by partition refinement (observation of a transition = the
// lexemes it makes the scanner emit, relative to the boundary, and whether the run is rejected),
// and for every state where trivia is trivia, spellings the property calls interchangeable must
// lead to bisimilar states. It covers every scanner state, including those no generated
// document visits; it never compares internal keys.

type bisimReport struct {
	States      int            `json:"states"`
	Classes     int            `json:"classes"`
	Rounds      int            `json:"rounds"`
	Comparisons int            `json:"comparisons"`
	Violations  []bisimViol    `json:"violations"`
	PerRule     map[string]int `json:"per_rule"`
}

type bisimViol struct {
	Rule   string `json:"rule"`
	Step   string `json:"step"`
	Rep    string `json:"rep"`
	U, V   string
	Detail string `json:"detail"`
}

func init() {
	bisimHook = reportBisim
	c05PrepareFn = prepareBisim
}

func stepOfKey(k string) string {
	if i := strings.IndexByte(k, '|'); i > 0 {
		return k[:i]
	}
	return k
}

func prepareBisim(tier, dir string) error {
	alpha := escan.Alphabet(false)
	g, sat := escan.Explore(alpha, nil, 400000, nil)
	rep := bisimReport{States: len(g.Keys), PerRule: map[string]int{}}
	if !sat {
		b, _ := json.Marshal(rep)
		return os.WriteFile(filepath.Join(dir, "prep-bisim.json"), b, 0o644)
	}
	tok := map[string]int{}
	for i, t := range alpha {
		tok[t] = i
	}
	n := len(g.Keys)
	// partition refinement; special successors are their own classes
	class := make([]int, n)
	special := func(s int32) int { return int(s) } // negative values
	for round := 0; round < 200; round++ {
		sig := make(map[uint64]int)
		next := make([]int, n)
		for s := 0; s < n; s++ {
			var k uint64 = 1469598103934665603
			mix := func(x uint64) {
				k ^= x
				k *= 1099511628211
			}
			mix(uint64(class[s]) + 1)
			for t := range alpha {
				succ := g.Succ[s][t]
				c := special(succ)
				if succ >= 0 {
					c = class[succ]
				}
				mix(g.Obs[s][t])
				mix(uint64(int64(c)) + 0x9e3779b97f4a7c15)
			}
			id, ok := sig[k]
			if !ok {
				id = len(sig)
				sig[k] = id
			}
			next[s] = id
		}
		same := true
		// stable when the number of classes does not grow
		cnt := map[int]bool{}
		for _, c := range class {
			cnt[c] = true
		}
		if len(sig) != len(cnt) {
			same = false
		}
		class = next
		rep.Rounds = round + 1
		rep.Classes = len(sig)
		if same && round > 0 {
			break
		}
	}
	// follow a sequence of tokens from a state; returns the class reached (or a negative special)
	follow := func(s int, seq []string) (int, bool) {
		cur := s
		for _, t := range seq {
			ti, ok := tok[t]
			if !ok {
				return 0, false
			}
			succ := g.Succ[cur][ti]
			if succ < 0 {
				return int(succ) - 10, true // rejected / pruned: a class of its own kind
			}
			cur = int(succ)
		}
		return class[cur], true
	}
	content := func(step string) bool {
		// states in which blanks, line ends and '#' are trivia: between directives, after a keyword or
		// parameter on a directive line, after a body, around parentheses, while a body is awaited
		if strings.HasPrefix(step, "stateExpectKeyword") || step == "stateRoot" || strings.HasPrefix(step, "stateParameterOrAnnotation") ||
			step == "stateBodyEnded" || step == "stateEnumBodyEnded" || strings.HasPrefix(step, "stateContext") {
			return false
		}
		for _, awaiting := range []string{"Body", "BodyOrKeyword"} {
			if strings.HasSuffix(step, awaiting) && !strings.Contains(step, "Regex") {
				return false
			}
		}
		return true // inside a keyword, parameter, annotation, comment, description, regex or schema: bytes are content
	}
	lineStates := func(step string) bool { // the rest of a directive line, after the last parameter / body
		return strings.HasPrefix(step, "stateParameterOrAnnotation") || step == "stateBodyEnded" || step == "stateEnumBodyEnded" || step == "stateContextClosed" || step == "stateContextOpenedOnNewline"
	}
	between := func(step string) bool { return step == "stateExpectKeyword" || step == "stateRoot" }
	type rule struct {
		name  string
		where func(step string) bool
		u, v  []string
	}
	rules := []rule{
		{"LF-vs-CRLF", func(s string) bool { return !content(s) }, []string{"\n"}, []string{"\r\n"}},
		{"LF-vs-CR", func(s string) bool { return !content(s) }, []string{"\n"}, []string{"\r"}},
		{"trailing-space", lineStates, []string{"\n"}, []string{" ", "\n"}},
		{"trailing-tab", lineStates, []string{"\n"}, []string{"\t", "\n"}},
		{"comment-before-line-end", lineStates, []string{"\n"}, []string{"# c", "\n"}},
		{"comment-before-line-end-2", lineStates, []string{"\n"}, []string{" ", "# c", "\n"}},
		{"blank-line", between, []string{}, []string{"\n"}},
		{"blank-line-with-spaces", between, []string{}, []string{" ", "\t", "\n"}},
		{"comment-line", between, []string{}, []string{"# c", "\n"}},
		{"block-comment", between, []string{}, []string{"###\nblock\n###", "\n"}},
		{"indentation", between, []string{}, []string{" "}},
		{"indentation-tab", between, []string{}, []string{"\t"}},
	}
	for s := 0; s < n; s++ {
		step := stepOfKey(g.Keys[s])
		// states whose monitor class is not clean describe inputs that are already suspicious
		if strings.Contains(g.Keys[s], "|g:bad") {
			continue
		}
		// a Description's text lexeme begins with the very next byte: the line end after the keyword
		// is already free text (normalised later, C15), not trivia between lexemes
		if strings.Contains(g.Keys[s], "DescriptionText") {
			continue
		}
		for _, r := range rules {
			if !r.where(step) {
				continue
			}
			cu, ok1 := follow(s, r.u)
			cv, ok2 := follow(s, r.v)
			if !ok1 || !ok2 {
				continue
			}
			rep.Comparisons++
			rep.PerRule[r.name]++
			// if both spellings are rejected the verdict agrees
			if cu < 0 && cv < 0 {
				continue
			}
			if cu != cv {
				if len(rep.Violations) < 50 {
					rep.Violations = append(rep.Violations, bisimViol{Rule: r.name, Step: step, Rep: g.Rep[s], U: strings.Join(r.u, ""), V: strings.Join(r.v, ""),
						Detail: fmt.Sprintf("after %q the spellings %q and %q lead to scanner states that some continuation tells apart (classes %d / %d)", g.Rep[s], strings.Join(r.u, ""), strings.Join(r.v, ""), cu, cv)})
				}
			}
		}
	}
	sort.Slice(rep.Violations, func(i, j int) bool { return len(rep.Violations[i].Rep) < len(rep.Violations[j].Rep) })
	b, _ := json.Marshal(rep)
	return os.WriteFile(filepath.Join(dir, "prep-bisim.json"), b, 0o644)
}

// reportBisim is called by shard 0 of C05.
func reportBisim(c *fw.Ctx) {
	b, err := os.ReadFile(filepath.Join(fw.PrepDir(), "prep-bisim.json"))
	if err != nil {
		c.Note("scanner_graph_bisimulation", "not computed")
		return
	}
	var rep bisimReport
	json.Unmarshal(b, &rep)
	c.Note("scanner_graph_bisimulation", map[string]interface{}{"states": rep.States, "bisimulation_classes": rep.Classes, "refinement_rounds": rep.Rounds, "state_x_rule_comparisons": rep.Comparisons, "per_rule": rep.PerRule, "violations": len(rep.Violations)})
	c.Count("evaluations", int64(rep.Comparisons))
	seen := map[string]bool{}
	for _, v := range rep.Violations {
		sig := "C05:scanner-state:" + v.Rule + ":" + v.Step
		if seen[sig] {
			continue
		}
		seen[sig] = true
		c.Violate("trivia-not-immaterial-in-scanner-state", sig, v.Detail, map[string]interface{}{"prefix": v.Rep, "spelling_a": v.U, "spelling_b": v.V})
	}
}
