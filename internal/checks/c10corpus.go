//go:build verif

package checks

import (
	"fmt"
	"sort"
	"strings"

	"verif/internal/doc"
	"verif/internal/drv"
	"verif/internal/fw"
	"verif/internal/jsonx"
)

func init() {
	corpusC10Hook = runC10Corpus
	corpusC20Hook = runC20Corpus
}

// sexpr re-serialises a directive tree the way VerifScan prints it.
func (t *ctree) sexpr() string {
	var b strings.Builder
	var rec func(t *ctree)
	rec = func(t *ctree) {
		b.WriteByte('(')
		b.WriteString(t.kw)
		if t.explicit {
			b.WriteByte('!')
		}
		for _, k := range t.kids {
			b.WriteByte(' ')
			rec(k)
		}
		b.WriteByte(')')
	}
	rec(t)
	return b.String()
}

// sameStructure reports whether text scans to exactly the given sequence of top-level trees (a
// chunk moved behind a directive that swallows it - a MACRO without parentheses - does not).
func sameStructure(text string, want []string) bool {
	ir := implScan(text)
	if ir.crash != "" || ir.rej != "" {
		return false
	}
	var got []string
	for _, t := range parseForest(ir.tree) {
		got = append(got, t.sexpr())
	}
	return strings.Join(got, " ") == strings.Join(want, " ")
}

// sameTopLevelTrees: two forests are the same multiset of top-level trees.
func sameTopLevelTrees(a, b string) bool {
	split := func(s string) []string {
		var out []string
		for _, t := range parseForest(s) {
			out = append(out, t.sexpr())
		}
		sort.Strings(out)
		return out
	}
	return strings.Join(split(a), " ") == strings.Join(split(b), " ")
}

// runC10Corpus permutes the top-level declarations of every fixture whose structure can be
// recovered: all permutations for <= 5 (thorough 6) declarations, all transpositions beyond.
func runC10Corpus(c *fw.Ctx) {
	maxAll, maxBytes := 5, 6000
	if !c.Quick() {
		maxAll, maxBytes = 6, 40000
	}
	docs, skipped := corpusDocs(maxBytes)
	if c.Shard == 0 {
		c.Note("corpus_fixtures_used", len(docs))
		c.Note("corpus_fixtures_skipped", skipped)
	}
	for _, d := range docs {
		if c.Expired() {
			return
		}
		c10PermuteDoc(c, d, "fixture:"+d.name, maxAll, true)
	}
	// rejected documents stay rejected in every order: every single-fault document of C11 that the
	// scan phase reads (duplicates, similar paths, undefined references, second singletons ...),
	// delivered directly, with its top-level declarations in ALL orders (<= 4 declarations) or in
	// all transpositions
	if faultTapHook != nil {
		faultTapHook(c, func(label string, p drv.Project) {
			if len(p.Files) != 1 || !strings.HasSuffix(label, " direct") {
				return
			}
			d, _ := buildCdoc(label, p.Files[p.Root])
			if d == nil || len(d.top) > 6 {
				return
			}
			c10PermuteDoc(c, d, "faulty:"+label, 4, false) // the injector has dealt this project to this worker already
		})
	}
}

// c10PermuteDoc judges one document (accepted or rejected) under the orders of its top-level
// declarations: all of them up to maxAll declarations, all transpositions beyond.
func c10PermuteDoc(c *fw.Ctx, d *cdoc, name string, maxAll int, deal bool) {
	{
		if len(d.top) < 3 || d.top[0].tree.kw != "JSIGHT" {
			return
		}
		head := d.chunkText(d.top[0])
		decls := d.top[1:]
		n := len(decls)
		if n > 40 {
			return
		}
		texts := make([]string, n)
		sx := make([]string, n)
		for i, ch := range decls {
			texts[i] = d.chunkText(ch)
			sx[i] = ch.tree.sexpr()
		}
		base := run1(d.text)
		if base.Crashed() {
			return
		}
		var baseE map[string]string
		if base.OK() {
			baseE, _ = catalogEntries(base)
		}
		try := func(p []int) {
			if deal && !c.Next() {
				return
			}
			c.Count("evaluations", 1)
			var b strings.Builder
			b.WriteString(head)
			want := []string{d.top[0].tree.sexpr()}
			for _, i := range p {
				b.WriteString(texts[i])
				want = append(want, sx[i])
			}
			text := b.String()
			if text == d.text {
				return
			}
			c.Describe(name + " perm " + fmt.Sprint(p))
			if !sameStructure(text, want) {
				c.Count("corpus_permutation_changes_nesting_not_judged", 1)
				return
			}
			// the macro definitions are taken out before the directives are resolved a second time:
			// a declaration that stood behind a definition may join the block before it. The
			// permutation must leave the expanded forest the same set of top-level trees, too.
			if a, b := implPaste(d.text), implPaste(text); a.crash == "" && b.crash == "" && a.rej == "" && b.rej == "" && !sameTopLevelTrees(a.tree, b.tree) {
				c.Count("corpus_permutation_changes_nesting_after_expansion_not_judged", 1)
				return
			}
			o := run1(text)
			if o.Crashed() {
				c.Count("skipped_crash", 1)
				return
			}
			if base.OK() {
				c.Distinct(text)
			}
			bad := ""
			var permE map[string]string
			if base.Kind != o.Kind {
				bad = fmt.Sprintf("verdict changes: first order %s, permuted %s", base.Short(), o.Short())
			} else if o.OK() {
				e, err := catalogEntries(o)
				permE = e
				if err != nil {
					bad = "permuted catalog unreadable: " + err.Error()
				} else if df := jsonx.DiffEntries(baseE, e); df != "" {
					bad = "entries change: " + df
				}
			}
			if bad == "" {
				c.Sample("fixture-permutation", 2, map[string]interface{}{"doc": name, "perm": fmt.Sprint(p), "verdict": o.Kind})
				return
			}
			if fw.Confirm(func() bool {
				a, b := run1(d.text), run1(text)
				if a.Kind != b.Kind {
					return true
				}
				ea, _ := catalogEntries(a)
				eb, _ := catalogEntries(b)
				return jsonx.DiffEntries(ea, eb) != ""
			}) {
				c.Violate("order-dependence", "C10:"+orderSig(bad, base, o, baseE, permE), fmt.Sprintf("document %s, order %v: %s", name, p, bad),
					map[string]interface{}{"doc": name, "first_order_text": d.text, "permuted_text": text})
			}
		}
		if n <= maxAll {
			permutations(n, func(p []int) bool { try(p); return !c.Expired() })
		} else {
			id := make([]int, n)
			for i := range id {
				id[i] = i
			}
			for i := 0; i < n; i++ {
				for j := i + 1; j < n; j++ {
					p := append([]int{}, id...)
					p[i], p[j] = p[j], p[i]
					try(p)
				}
			}
		}
	}
}

// runC20Corpus inserts every fresh declaration at every boundary between top-level declarations of
// every accepted fixture, and deletes every named declaration whose name occurs nowhere else.
func runC20Corpus(c *fw.Ctx) {
	maxBytes := 6000
	if !c.Quick() {
		maxBytes = 40000
	}
	docs, _ := corpusDocs(maxBytes)
	fr := freshDecls()
	for _, d := range docs {
		if c.Expired() {
			return
		}
		if len(d.top) < 2 || d.top[0].tree.kw != "JSIGHT" || len(d.top) > 60 {
			continue
		}
		name := "fixture:" + d.name
		var base struct {
			done bool
			ok   bool
			e    map[string]string
		}
		getBase := func() bool {
			if !base.done {
				base.done = true
				o := run1(d.text)
				if o.OK() {
					base.e, _ = catalogEntries(o)
					base.ok = base.e != nil
				}
			}
			return base.ok
		}
		var sx []string
		for _, ch := range d.top {
			sx = append(sx, ch.tree.sexpr())
		}
		// names the fixture already uses must not collide with the fresh ones
		if strings.Contains(d.text, "fresh") {
			continue
		}
		for _, f := range fr {
			if f.needs != "" {
				continue
			}
			ft := doc.Text(f.nodes())
			var fsx []string
			ff := parseForest(implScan("JSIGHT 0.3\n" + ft).tree)
			if len(ff) < 2 {
				c.Note("harness_fault", "C20: the fresh declaration "+f.name+" does not pass the scan phase on its own")
				c.NotExhaustive("fresh declaration " + f.name + " rejected")
				continue
			}
			for _, t := range ff[1:] {
				fsx = append(fsx, t.sexpr())
			}
			for pos := 1; pos <= len(d.top); pos++ {
				if !c.Next() {
					continue
				}
				if !getBase() {
					continue
				}
				c.Count("evaluations", 1)
				cut := len(d.text)
				if pos < len(d.top) {
					cut = d.r.Lines[d.top[pos].fromLine].Begin
				}
				text := d.text[:cut] + ft + d.text[cut:]
				want := append(append(append([]string{}, sx[:pos]...), fsx...), sx[pos:]...)
				c.Describe(fmt.Sprintf("%s insert %s@%d", name, f.name, pos))
				if !sameStructure(text, want) {
					c.Count("corpus_insertion_changes_nesting_not_judged", 1)
					continue
				}
				c.Distinct(text)
				o := run1(text)
				if o.Crashed() {
					c.Count("skipped_crash", 1)
					continue
				}
				bad := ""
				if !o.OK() {
					bad = "edited document is rejected: " + o.Short()
				} else if e, err := catalogEntries(o); err != nil {
					bad = "edited catalog unreadable: " + err.Error()
				} else {
					bad = localityDiff(base.e, e, f.adds)
				}
				if bad == "" {
					c.Sample("fixture-insert "+f.name, 1, map[string]interface{}{"doc": name, "at": pos})
					continue
				}
				if fw.Confirm(func() bool {
					o2 := run1(text)
					if !o2.OK() {
						return true
					}
					e, _ := catalogEntries(o2)
					return localityDiff(base.e, e, f.adds) != ""
				}) {
					c.Violate("non-local-effect", "C20:insert:"+f.name+":"+firstWordsN(bad, 3), fmt.Sprintf("document %s, insert %s@%d: %s", name, f.name, pos, bad),
						map[string]interface{}{"doc": name, "base_text": d.text, "edited_text": text})
				}
			}
		}
		// deletions: a named declaration whose name occurs nowhere else in the text
		coll := map[string]string{"TYPE": "userTypes/", "ENUM": "userEnums/", "SERVER": "servers/", "TAG": "tags/", "MACRO": ""}
		for i := 1; i < len(d.top); i++ {
			ch := d.top[i]
			prefix, ok := coll[ch.tree.kw]
			sp := d.r.Spans[ch.tree.first]
			if !ok || len(sp.Node.Params) == 0 || !strings.HasPrefix(sp.Node.Params[0], "@") {
				continue
			}
			nm := sp.Node.Params[0]
			b := d.r.Lines[ch.fromLine].Begin
			e := len(d.text)
			if ch.toLine < len(d.r.Lines) {
				e = d.r.Lines[ch.toLine].Begin
			}
			rest := d.text[:b] + d.text[e:]
			if nameOccurs(rest, nm) || nameOccursTwice(d.text[b:e], nm) {
				continue
			}
			if !c.Next() {
				continue
			}
			if !getBase() {
				continue
			}
			c.Count("evaluations", 1)
			want := append(append([]string{}, sx[:i]...), sx[i+1:]...)
			if !sameStructure(rest, want) {
				c.Count("corpus_deletion_changes_nesting_not_judged", 1)
				continue
			}
			c.Distinct(rest)
			o := run1(rest)
			if o.Crashed() {
				continue
			}
			var removed []string
			if prefix != "" {
				removed = []string{prefix + nm}
			}
			bad := ""
			if !o.OK() {
				bad = "edited document is rejected: " + o.Short()
			} else if en, err := catalogEntries(o); err != nil {
				bad = "edited catalog unreadable: " + err.Error()
			} else {
				bad = localityDiff(en, base.e, removed)
			}
			if bad == "" {
				c.Sample("fixture-delete "+ch.tree.kw, 1, map[string]interface{}{"doc": name, "declaration": ch.tree.kw + " " + nm})
				continue
			}
			if fw.Confirm(func() bool {
				o2 := run1(rest)
				if !o2.OK() {
					return true
				}
				en, _ := catalogEntries(o2)
				return localityDiff(en, base.e, removed) != ""
			}) {
				c.Violate("non-local-effect", "C20:delete:"+ch.tree.kw+":"+firstWordsN(bad, 3), fmt.Sprintf("document %s, delete %s %s: %s", name, ch.tree.kw, nm, bad),
					map[string]interface{}{"doc": name, "base_text": d.text, "edited_text": rest})
			}
		}
	}
	_ = sort.Strings
}

func isNameByte(b byte) bool {
	return b == '_' || b == '-' || b >= '0' && b <= '9' || b >= 'a' && b <= 'z' || b >= 'A' && b <= 'Z'
}

// nameOccurs reports whether @name occurs in s as a whole name.
func nameOccurs(s, name string) bool {
	for i := 0; ; {
		j := strings.Index(s[i:], name)
		if j < 0 {
			return false
		}
		k := i + j + len(name)
		if k >= len(s) || !isNameByte(s[k]) {
			return true
		}
		i = i + j + 1
	}
}

func nameOccursTwice(s, name string) bool {
	j := strings.Index(s, name)
	if j < 0 {
		return false
	}
	return nameOccurs(s[j+len(name):], name)
}
