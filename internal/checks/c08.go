//go:build verif

package checks

import (
	"fmt"
	"os"
	"path/filepath"
	"strings"
	"time"

	"verif/internal/doc"
	"verif/internal/drv"
	"verif/internal/fw"

	"github.com/jsightapi/jsight-api-go-library/core"
)

func init() {
	fw.Register(&fw.Check{
		ID: "C08", Level: "model_checking",
		Rule:   "(i) every closed selection of 1..2 (quick) / 1..3 (thorough) pool blocks x every contiguous run of complete top-level declarations, and of complete children of every implicitly nesting directive, moved into an included file (plain, in a sub-directory next to a same-named decoy, nested to depth 2, the same file included from two places when the run repeats); oracle: same verdict and byte-identical JSON as the unsplit document; (ii) ALL file-name strings of length <= 6 (quick) / 7 (thorough) over {. / \\ a}: validator vs the sentence of the property, and every name the sentence rejects run end to end with canary files outside the project directory; (iii) include cycles of length 1..3, missing file, directory, empty file, JSIGHT in an included file (at every position of a file made of <= 3 declarations / nested INCLUDEs, and in the nested file), each at top level / inside an implicit context / inside parentheses: rejected with a diagnostic; non-trivial = accepted unsplit document or rejected-by-sentence name; distinct = distinct projects",
		Assume: []string{"file access is observed through canary files placed beside and above the project directory (their content would show up in the catalog or change the verdict); 'unreadable' targets cannot be produced when the checks run as root"},
		Run:    runC08, QuickCap: 8 * time.Minute, ThoroughCap: 40 * time.Minute,
	})
}

// includeRejectedBySentence: absolute, a '.' or '..' path component, or a backslash.
func includeRejectedBySentence(name string) bool {
	if strings.HasPrefix(name, "/") || strings.Contains(name, "\\") {
		return true
	}
	for _, comp := range strings.Split(name, "/") {
		if comp == "." || comp == ".." {
			return true
		}
	}
	return false
}

func runC08(c *fw.Ctx) {
	if ioFaultHook != nil {
		ioFaultHook(c, "C08")
	}
	dir := drv.NewDir(fw.Scratch("c08"))
	defer dir.Close()
	defer os.RemoveAll(filepath.Dir(dir.Path))
	opt := drv.Options{FixedSeed: true}

	compareSplit := func(label string, unsplit string, p drv.Project) {
		if !c.Next() {
			return
		}
		c.Describe(label)
		c.Count("evaluations", 1)
		base := drv.RunMem("root.jst", unsplit, opt)
		o, rootPath := dir.Run(p, opt, false)
		// the root file may be named in other spellings of the same path: nothing may change
		if strings.Count(p.Files[p.Root], "INCLUDE ") >= 2 && !o.Crashed() {
			d, b := filepath.Dir(rootPath), filepath.Base(rootPath)
			for _, spelled := range []string{d + "/./" + b, d + "//" + b, d + "/../" + filepath.Base(d) + "/" + b} {
				c.Count("evaluations", 1)
				os2 := drv.RunPath(spelled, opt)
				if _, eq := sameResult(o, os2); !eq && !os2.Crashed() {
					c.Violate("root-path-spelling-changes-result", "C08:root-spelling", fmt.Sprintf("%s: root file named %q gives %s, named by its clean path %s", label, strings.TrimPrefix(spelled, filepath.Dir(d)), os2.Short(), o.Short()), map[string]interface{}{"project": p, "root_spelling": strings.TrimPrefix(spelled, filepath.Dir(d))})
					break
				}
			}
		}
		judged, same := sameResult(base, o)
		if !judged {
			c.Count("skipped_crash", 1)
			return
		}
		if base.OK() {
			c.Distinct(label + fmt.Sprint(p.Files))
		}
		if same {
			c.Sample("split", 3, map[string]interface{}{"label": label, "files": p.Files})
			return
		}
		if fw.Confirm(func() bool {
			o2, _ := dir.Run(p, opt, false)
			_, s := sameResult(drv.RunMem("root.jst", unsplit, opt), o2)
			return !s
		}) {
			det := fmt.Sprintf("%s: unsplit %s, split %s", label, base.Short(), o.Short())
			if base.OK() && o.OK() {
				det += "; JSON differs: " + firstDiff(base.JSON, o.JSON)
			}
			c.Violate("split-changes-result", "C08:split:"+strings.SplitN(label, " ", 3)[1], det, map[string]interface{}{"unsplit": unsplit, "project": p})
		}
	}

	// (i-corpus) every run of complete top-level declarations of every fixture whose structure can
	// be recovered, moved into an included file (one file; thorough: also each declaration of the
	// run in its own file, and the run nested behind a second INCLUDE)
	{
		maxBytes := 6000
		if !c.Quick() {
			maxBytes = 40000
		}
		docs, _ := corpusDocs(maxBytes)
		for _, d := range docs {
			if c.Expired() {
				break
			}
			if len(d.top) < 2 || d.top[0].tree.kw != "JSIGHT" {
				continue
			}
			n := len(d.top)
			cutAt := func(i int) int {
				if i >= n {
					return len(d.text)
				}
				return d.r.Lines[d.top[i].fromLine].Begin
			}
			for i := 1; i < n; i++ {
				for j := i + 1; j <= n; j++ {
					if n > 9 && j-i > 2 {
						continue
					}
					run := d.text[cutAt(i):cutAt(j)]
					root := d.text[:cutAt(i)] + "INCLUDE part.jst\n" + d.text[cutAt(j):]
					label := fmt.Sprintf("fixture corpus[%d:%d] %s", i, j, d.name)
					compareSplit(label, d.text, drv.Project{Root: "root.jst", Files: map[string]string{"root.jst": root, "part.jst": run}})
					if !c.Quick() {
						compareSplit(label+" nested", d.text, drv.Project{Root: "root.jst", Files: map[string]string{"root.jst": root, "part.jst": "INCLUDE sub/inner.jst\n", "sub/inner.jst": run}})
						if j-i >= 2 {
							files := map[string]string{}
							incs := ""
							for k := i; k < j; k++ {
								fn := fmt.Sprintf("p%d.jst", k)
								files[fn] = d.text[cutAt(k):cutAt(k+1)]
								incs += "INCLUDE " + fn + "\n"
							}
							files["root.jst"] = d.text[:cutAt(i)] + incs + d.text[cutAt(j):]
							compareSplit(label+" one-file-each", d.text, drv.Project{Root: "root.jst", Files: files})
						}
					}
				}
			}
		}
	}

	// (i) splitting
	docSets(!c.Quick(), func(name string, blocks []doc.Block) {
		if c.Expired() {
			return
		}
		nodes := doc.Assemble(blocks)
		unsplit := doc.Text(nodes)
		top := nodes[1:]
		// runs of top-level declarations
		for i := 0; i < len(top); i++ {
			for j := i + 1; j <= len(top); j++ {
				run := top[i:j]
				rest := func(inc *doc.Node) []*doc.Node {
					out := []*doc.Node{nodes[0]}
					out = append(out, top[:i]...)
					out = append(out, inc)
					out = append(out, top[j:]...)
					return out
				}
				lab := fmt.Sprintf("%s top[%d:%d]", name, i, j)
				// plain
				compareSplit(lab+" plain", unsplit, drv.Project{Root: "root.jst", Files: map[string]string{
					"root.jst": doc.Text(rest(doc.N("INCLUDE", "inc.jst"))), "inc.jst": doc.Text(run)}})
				// in a sub-directory, with a decoy of the same base name beside the root
				compareSplit(lab+" subdir", unsplit, drv.Project{Root: "root.jst", Files: map[string]string{
					"root.jst": doc.Text(rest(doc.N("INCLUDE", "sub/inc.jst"))), "sub/inc.jst": doc.Text(run), "inc.jst": "TYPE @decoy any\n"}})
				// nested: the run's file includes a second file holding its tail
				if len(run) >= 2 {
					compareSplit(lab+" nested", unsplit, drv.Project{Root: "root.jst", Files: map[string]string{
						"root.jst":    doc.Text(rest(doc.N("INCLUDE", "sub/a.jst"))),
						"sub/a.jst":   doc.Text(append(append([]*doc.Node{}, run[:1]...), doc.N("INCLUDE", "b.jst"))),
						"sub/b.jst":   doc.Text(run[1:]),
						"b.jst":       "TYPE @decoy any\n",
						"sub/sub.jst": "TYPE @decoy2 any\n"}})
				}
				// the same INCLUDE parameter written in files of two directories, naming different files
				if len(run) >= 2 {
					for _, subFirst := range []bool{false, true} {
						out := []*doc.Node{nodes[0]}
						out = append(out, top[:i]...)
						files := map[string]string{}
						if subFirst {
							out = append(out, doc.N("INCLUDE", "sub/a.jst"), doc.N("INCLUDE", "b.jst"))
							files["sub/a.jst"] = doc.Text([]*doc.Node{doc.N("INCLUDE", "b.jst")})
							files["sub/b.jst"] = doc.Text(run[:1])
							files["b.jst"] = doc.Text(run[1:])
						} else {
							out = append(out, doc.N("INCLUDE", "b.jst"), doc.N("INCLUDE", "sub/a.jst"))
							files["b.jst"] = doc.Text(run[:1])
							files["sub/a.jst"] = doc.Text([]*doc.Node{doc.N("INCLUDE", "b.jst")})
							files["sub/b.jst"] = doc.Text(run[1:])
						}
						out = append(out, top[j:]...)
						files["root.jst"] = doc.Text(out)
						compareSplit(fmt.Sprintf("%s same-name-two-dirs subFirst=%v", lab, subFirst), unsplit, drv.Project{Root: "root.jst", Files: files})
					}
				}
				// two files from one place
				if len(run) >= 2 {
					out := []*doc.Node{nodes[0]}
					out = append(out, top[:i]...)
					out = append(out, doc.N("INCLUDE", "one.jst"), doc.N("INCLUDE", "two.jst"))
					out = append(out, top[j:]...)
					compareSplit(lab+" two-files", unsplit, drv.Project{Root: "root.jst", Files: map[string]string{
						"root.jst": doc.Text(out), "one.jst": doc.Text(run[:1]), "two.jst": doc.Text(run[1:])}})
				}
			}
		}
		// runs of children of implicitly nesting directives (first level and second level)
		idx := 0
		doc.Walk(nodes, func(n *doc.Node, depth int, _ *doc.Node) {
			my := idx
			idx++
			if len(n.Kids) == 0 || n.Paren {
				return
			}
			for i := 0; i < len(n.Kids); i++ {
				for j := i + 1; j <= len(n.Kids); j++ {
					cl := doc.CloneAll(nodes)
					t := nthNode(cl, my)
					run := t.Kids[i:j]
					kids := append([]*doc.Node{}, t.Kids[:i]...)
					kids = append(kids, doc.N("INCLUDE", "kids.jst"))
					kids = append(kids, t.Kids[j:]...)
					t.Kids = kids
					compareSplit(fmt.Sprintf("%s kids-of-%s[%d:%d] children", name, n.Kw, i, j), unsplit, drv.Project{Root: "root.jst", Files: map[string]string{
						"root.jst": doc.Text(cl), "kids.jst": doc.Text(run)}})
				}
			}
		})
		// the same file included twice: the document with a repeated declaration vs two INCLUDEs of one file
		if len(top) >= 1 {
			dup := append(append([]*doc.Node{nodes[0]}, top...), top[len(top)-1])
			inc := append(append([]*doc.Node{nodes[0]}, top[:len(top)-1]...), doc.N("INCLUDE", "same.jst"), doc.N("INCLUDE", "same.jst"))
			compareSplit(name+" twice same-file", doc.Text(dup), drv.Project{Root: "root.jst", Files: map[string]string{
				"root.jst": doc.Text(inc), "same.jst": doc.Text(top[len(top)-1:])}})
		}
	})

	// (i-b) one file included from two (or three) places: content that may legitimately repeat
	twice := []struct {
		label   string
		content string
		host    func(inc func(depthIndent string) string) string
	}{
		{"method-with-path", "GET\n  Path\n    {\n      \"id\": 1\n    }\n  200 any\n",
			func(inc func(string) string) string {
				return "JSIGHT 0.3\nURL /a/{id}\n" + inc("  ") + "URL /b/{id}\n" + inc("  ") + "URL /c/{id}\n  Path\n    {\n      \"id\": 2\n    }\n  POST\n    200 any\n"
			}},
		{"method-with-path-parens", "GET\n(\n  Path\n    {\n      \"id\": 1\n    }\n  200 any\n)\n",
			func(inc func(string) string) string {
				return "JSIGHT 0.3\nURL /a/{id}\n(\n" + inc("  ") + ")\nURL /b/{id}\n(\n" + inc("  ") + ")\n"
			}},
		{"responses", "404 any\n500\n  {\n    \"e\": \"m\"\n  }\n",
			func(inc func(string) string) string {
				return "JSIGHT 0.3\nGET /one\n  200 any\n" + inc("  ") + "POST /two\n" + inc("  ") + "URL /three\n  PUT\n" + inc("    ")
			}},
		{"request", "Request\n  Headers\n    {\n      \"H\": \"v\"\n    }\n  Body any\n",
			func(inc func(string) string) string {
				return "JSIGHT 0.3\nPOST /one\n" + inc("  ") + "  200 any\nPUT /two\n" + inc("  ") + "  200 any\n"
			}},
		{"query-and-description", "Description\n  shared text\nQuery \"q=1\"\n  {\n    \"q\": 1\n  }\n",
			func(inc func(string) string) string {
				return "JSIGHT 0.3\nGET /one\n" + inc("  ") + "  200 any\nGET /two\n" + inc("  ") + "  200 any\n"
			}},
		{"headers-under-responses", "Headers\n  {\n    \"H\": \"v\"\n  }\nBody any\n",
			func(inc func(string) string) string {
				return "JSIGHT 0.3\nGET /one\n  200\n" + inc("    ") + "  404\n" + inc("    ") + "  Request\n" + inc("    ")
			}},
		{"rpc-params", "Params\n  {\n    \"p\": 1\n  }\nResult\n  {\n    \"r\": 2\n  }\n",
			func(inc func(string) string) string {
				return "JSIGHT 0.3\nURL /rpc\n  Protocol json-rpc-2.0\n  Method one\n" + inc("    ") + "  Method two\n" + inc("    ")
			}},
	}
	for _, tw := range twice {
		inline := func(ind string) string { return indentBlock(tw.content, ind) }
		for _, sub := range []bool{false, true} {
			name := "twice.jst"
			if sub {
				name = "sub/twice.jst"
			}
			include := func(ind string) string { return ind + "INCLUDE " + name + "\n" }
			compareSplit("twice "+tw.label+fmt.Sprintf(" sub=%v", sub)+" same-file-many-places", tw.host(inline), drv.Project{Root: "root.jst", Files: map[string]string{"root.jst": tw.host(include), name: tw.content}})
		}
	}

	// (i') chains of 2..4 nested includes whose file names are as similar as names can be without
	// being the same: letter case, a longer name with the shorter as its prefix, the same base name in
	// a sub-directory - every file is a different file
	for _, names := range [][]string{
		{"Part.jst", "part.jst", "leaf.jst"}, {"part.jst", "PART.JST", "Part.jst", "leaf.jst"}, {"a.jst", "a.jst.jst", "aa.jst"},
		{"sub/x.jst", "x.jst", "Sub/x.jst"}, {"x.jst", "sub/x.jst", "sub/sub/x.jst"},
	} {
		files := map[string]string{}
		unsplit := "JSIGHT 0.3\nTYPE @r any\n"
		prev := "root.jst"
		files[prev] = "JSIGHT 0.3\nTYPE @r any\n"
		for i, n := range names {
			// an INCLUDE names its file relative to the including file's directory
			rel := n
			if d := filepath.Dir(prev); d != "." && strings.HasPrefix(n, d+"/") {
				rel = strings.TrimPrefix(n, d+"/")
			} else if d != "." {
				rel = ""
			}
			if rel == "" {
				files = nil
				break
			}
			files[prev] += "INCLUDE " + rel + "\n"
			files[n] = fmt.Sprintf("TYPE @n%d any\n", i)
			unsplit += fmt.Sprintf("TYPE @n%d any\n", i)
			prev = n
		}
		if files == nil {
			continue
		}
		compareSplit("similar names nested "+strings.Join(names, " > "), unsplit, drv.Project{Root: "root.jst", Files: files})
	}

	// (ii) file names
	maxLen := 6
	if !c.Quick() {
		maxLen = 7
	}
	alpha := []byte{'.', '/', '\\', 'a'}
	// a project directory with things a name could hit, and canaries outside it
	nameDir := filepath.Join(dir.Path, "names")
	proj := filepath.Join(nameDir, "p", "q")
	os.MkdirAll(filepath.Join(proj, "a", "a"), 0o755)
	canary := "TYPE @canary any\n"
	os.WriteFile(filepath.Join(nameDir, "a"), []byte(canary), 0o644)
	os.WriteFile(filepath.Join(nameDir, "p", "a"), []byte(canary), 0o644)
	os.WriteFile(filepath.Join(nameDir, "p", "aa"), []byte(canary), 0o644)
	os.WriteFile(filepath.Join(proj, "aa"), []byte("TYPE @inside any\n"), 0o644)
	os.WriteFile(filepath.Join(proj, "a", "aa"), []byte("TYPE @inside2 any\n"), 0o644)
	os.WriteFile(filepath.Join("/tmp", "verif-canary-a"), []byte(canary), 0o644)
	defer os.Remove(filepath.Join("/tmp", "verif-canary-a"))
	var rec func(prefix []byte)
	rec = func(prefix []byte) {
		if len(prefix) > 0 {
			name := string(prefix)
			if c.Next() {
				c.Count("evaluations", 1)
				sent := includeRejectedBySentence(name)
				lib := core.VerifValidateIncludeFileName(name) != nil
				if sent {
					c.Distinct("name:" + name)
				}
				if sent && !lib {
					c.Count("names_validator_accepts_but_sentence_rejects", 1)
				}
				if sent || !lib {
					// end to end: INCLUDE <name> from p/q/root.jst
					root := filepath.Join(proj, "root.jst")
					os.WriteFile(root, []byte("JSIGHT 0.3\nINCLUDE "+name+"\n"), 0o644)
					// a name the sentence rejects is rejected even when a file of exactly that name is
					// there (a backslash is an ordinary byte of a file name on this system)
					made := ""
					if sent && !strings.Contains(name, "/") && name != "." && name != ".." {
						made = filepath.Join(proj, name)
						if os.WriteFile(made, []byte("TYPE @literal any\n"), 0o644) != nil {
							made = ""
						}
					}
					o := runPath(root, opt)
					if made != "" {
						os.Remove(made)
					}
					switch {
					case o.Crashed():
						c.Count("skipped_crash", 1)
					case sent && !o.Rejected():
						c.Violate("bad-include-name-accepted", "C08:name-accepted:"+nameClass(name), fmt.Sprintf("INCLUDE %s is accepted although the name is absolute, has a '.'/'..' component or a backslash: %s", name, o.Short()), map[string]interface{}{"name": name})
					case o.OK() && strings.Contains(o.JSON, "@canary"):
						c.Violate("file-outside-project-read", "C08:canary:"+nameClass(name), fmt.Sprintf("INCLUDE %s pulled in a file from outside the including file's directory tree", name), map[string]interface{}{"name": name})
					}
				}
			}
		}
		if len(prefix) == maxLen {
			return
		}
		for _, b := range alpha {
			rec(append(prefix, b))
		}
	}
	rec(nil)

	// (iii) target states, cycles, JSIGHT in included file
	type sc struct {
		label string
		p     drv.Project
	}
	var scs []sc
	places := map[string]func(inc string) string{
		"top":      func(inc string) string { return "JSIGHT 0.3\nTYPE @x any\n" + inc + "\nTYPE @y any\n" },
		"implicit": func(inc string) string { return "JSIGHT 0.3\nGET /x\n  200 any\n  " + inc + "\nTYPE @y any\n" },
		"paren":    func(inc string) string { return "JSIGHT 0.3\nGET /x\n(\n  200 any\n  " + inc + "\n)\nTYPE @y any\n" },
		"first":    func(inc string) string { return inc + "\n" },
		"last":     func(inc string) string { return "JSIGHT 0.3\n" + inc },
	}
	for pl, mk := range places {
		r := mk("INCLUDE t.jst")
		scs = append(scs,
			sc{pl + " missing", drv.Project{Root: "root.jst", Files: map[string]string{"root.jst": r}}},
			sc{pl + " directory", drv.Project{Root: "root.jst", Files: map[string]string{"root.jst": r}, Dirs: []string{"t.jst"}}},
			sc{pl + " self-cycle", drv.Project{Root: "root.jst", Files: map[string]string{"root.jst": mk("INCLUDE root.jst")}}},
			sc{pl + " cycle2", drv.Project{Root: "root.jst", Files: map[string]string{"root.jst": r, "t.jst": "INCLUDE root.jst\n"}}},
			sc{pl + " cycle2-inner", drv.Project{Root: "root.jst", Files: map[string]string{"root.jst": r, "t.jst": "INCLUDE t.jst\n"}}},
			sc{pl + " cycle3", drv.Project{Root: "root.jst", Files: map[string]string{"root.jst": r, "t.jst": "INCLUDE u.jst\n", "u.jst": "404 any\nINCLUDE t.jst\n"}}},
			sc{pl + " cycle3-subdir", drv.Project{Root: "root.jst", Files: map[string]string{"root.jst": mk("INCLUDE s/t.jst"), "s/t.jst": "INCLUDE u.jst\n", "s/u.jst": "INCLUDE t.jst\n"}}},
			sc{pl + " jsight-in-included", drv.Project{Root: "root.jst", Files: map[string]string{"root.jst": r, "t.jst": "JSIGHT 0.3\n"}}},
			sc{pl + " jsight-in-nested", drv.Project{Root: "root.jst", Files: map[string]string{"root.jst": r, "t.jst": "INCLUDE u.jst\n", "u.jst": "\nJSIGHT 0.3\n"}}},
			sc{pl + " no-parameter", drv.Project{Root: "root.jst", Files: map[string]string{"root.jst": mk("INCLUDE")}}},
		)
	}
	// JSIGHT at every position of an included file: the file is any sequence of <= 3 items over
	// {declaration, INCLUDE of a second file, INCLUDE of a third file}, the nested files are empty /
	// a comment / a declaration, and the JSIGHT line stands in every slot of the first or of the
	// second file (before, between and after includes that have already returned)
	{
		items := []string{"decl", "inc-u", "inc-v"}
		uContents := []string{"", "# only a comment\n", "TYPE @inU any\n"}
		var seq []string
		var gen func(n int)
		gen = func(n int) {
			for ui, uc := range uContents {
				hasU := false
				for _, it := range seq {
					if it == "inc-u" {
						hasU = true
					}
				}
				if !hasU && ui > 0 {
					continue
				}
				render := func(jsightAt int) string {
					var b strings.Builder
					for i, it := range seq {
						if i == jsightAt {
							b.WriteString("JSIGHT 0.3\n")
						}
						switch it {
						case "decl":
							fmt.Fprintf(&b, "TYPE @inT%d any\n", i)
						case "inc-u":
							b.WriteString("INCLUDE u.jst\n")
						case "inc-v":
							b.WriteString("INCLUDE v.jst\n")
						}
					}
					if jsightAt == len(seq) {
						b.WriteString("JSIGHT 0.3\n")
					}
					return b.String()
				}
				for _, rootForm := range []string{"JSIGHT 0.3\nINCLUDE t.jst\n", "INCLUDE t.jst\n", "JSIGHT 0.3\nTYPE @x any\nINCLUDE t.jst\nTYPE @y any\n"} {
					for at := 0; at <= len(seq); at++ {
						scs = append(scs, sc{fmt.Sprintf("jsight-pos t=%v u=%d at=%d root=%d", seq, ui, at, len(rootForm)),
							drv.Project{Root: "root.jst", Files: map[string]string{"root.jst": rootForm, "t.jst": render(at), "u.jst": uc, "v.jst": "TYPE @inV any\n"}}})
					}
					if hasU {
						for _, up := range []string{"JSIGHT 0.3\n" + uc, uc + "JSIGHT 0.3\n"} {
							scs = append(scs, sc{fmt.Sprintf("jsight-pos t=%v u=%d in-u root=%d", seq, ui, len(rootForm)),
								drv.Project{Root: "root.jst", Files: map[string]string{"root.jst": rootForm, "t.jst": render(-1), "u.jst": up, "v.jst": "TYPE @inV any\n"}}})
						}
					}
				}
			}
			if n == 0 {
				return
			}
			for _, it := range items {
				dup := false
				for _, x := range seq {
					if x == it && it != "decl" {
						dup = true // the same file twice would be a second declaration of its type
					}
				}
				if dup {
					continue
				}
				seq = append(seq, it)
				gen(n - 1)
				seq = seq[:len(seq)-1]
			}
		}
		gen(3)
	}
	for _, s := range scs {
		if !c.Next() {
			continue
		}
		c.Describe(s.label)
		c.Count("evaluations", 1)
		c.Distinct("state:" + s.label)
		o, _ := dir.Run(s.p, opt, false)
		if !o.Rejected() {
			o2, _ := dir.Run(s.p, opt, false)
			if !o2.Rejected() {
				c.Violate("bad-include-not-rejected", "C08:state:"+stateSigOf(s.label)+":"+o.Kind, fmt.Sprintf("%s: expected a diagnostic, got %s", s.label, o.Short()), map[string]interface{}{"project": s.p})
			}
		}
	}
	// an empty included file is textual inclusion of nothing
	for pl, mk := range places {
		if pl == "first" {
			continue
		}
		compareSplit("empty "+pl+" empty-file", mk(""), drv.Project{Root: "root.jst", Files: map[string]string{"root.jst": mk("INCLUDE e.jst"), "e.jst": ""}})
		compareSplit("empty "+pl+" blank-file", mk(""), drv.Project{Root: "root.jst", Files: map[string]string{"root.jst": mk("INCLUDE e.jst"), "e.jst": "\n  \n# only a comment\n"}})
	}
}

func nameClass(name string) string {
	switch {
	case strings.HasPrefix(name, "/"):
		return "absolute"
	case strings.Contains(name, "\\"):
		return "backslash"
	}
	if name == "." || name == ".." {
		return "bare-" + name
	}
	if strings.HasSuffix(name, "/..") || strings.HasSuffix(name, "/.") {
		return "trailing-dot"
	}
	if strings.HasPrefix(name, "../") || strings.HasPrefix(name, "./") {
		return "leading-dot"
	}
	return "inner-dot"
}

func nthNode(nn []*doc.Node, k int) *doc.Node {
	var res *doc.Node
	i := 0
	doc.Walk(nn, func(n *doc.Node, _ int, _ *doc.Node) {
		if i == k {
			res = n
		}
		i++
	})
	return res
}

func stateSigOf(label string) string {
	if strings.HasPrefix(label, "jsight-pos") {
		return "jsight-in-included-file"
	}
	return strings.SplitN(label, " ", 2)[1]
}
