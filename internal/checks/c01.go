//go:build verif

package checks

import (
	"os"
	"path/filepath"
	"strings"
	"time"

	"verif/internal/drv"
	"verif/internal/fw"
)

func init() {
	fw.Register(&fw.Check{
		ID: "C01", Level: "model_checking", Prepare: prepareStreams,
		Rule: "the whole pipeline (create, validate, serialise) is run on: every reachable scanner state's representative x every alphabet token (the S x token product over the complete E-SCAN graph, thorough also behind a JSIGHT line); every reachable context-resolution state's representative sequence; all sequences of <= 2 (thorough 3) directive variants (kind x parameter absent/valid/wrong x body absent/valid/wrong); all paste graphs over <= 3 (thorough 4) macros x used/unused/twice; include placements x trailing junk x target states x contents and all include graphs over three files; the fixture corpus with its complete one-line-edit neighbourhood; pool documents x every single banned kind / all kinds / no fixed seed; names over a stress alphabet incl. invalid UTF-8; oracle: returns (no panic, worker alive, no case above the hang limit), result is a catalog or a JApiError, the diagnostic is not a Go runtime fault; non-trivial = every case; distinct = distinct (stream, input)",
		Assume: []string{"a case is a hang when a worker makes no progress for 90 s (normal runs take 15-160 microseconds); stack overflows and fatal runtime errors kill the worker and are attributed through the progress file",
			"runtime faults swallowed by the library's recover() blocks are detected by their text ('runtime error: ...') in the diagnostic"},
		Run: runC01, QuickCap: 12 * time.Minute, ThoroughCap: 60 * time.Minute,
	})
}

var runtimeFaultMarks = []string{"runtime error:", "invalid memory address", "nil pointer dereference", "index out of range", "slice bounds out of range", "stack overflow", "concurrent map"}

func runtimeFaultIn(s string) string {
	for _, m := range runtimeFaultMarks {
		if strings.Contains(s, m) {
			return m
		}
	}
	return ""
}

func runC01(c *fw.Ctx) {
	if ioFaultHook != nil {
		ioFaultHook(c, "C01")
	}
	// single faults found after scanning (schema faults, dangling references), in every pool
	// document in both declaration orders, written in one file, with the faulty directive in an
	// included file, and with each top-level declaration alone in a small file of its own
	runFaultsMode(c, "C01:faults:", func(kind string) bool {
		return strings.HasPrefix(kind, "schema-error-") || strings.HasPrefix(kind, "undefined-")
	}, true)
	dir := drv.NewDir(fw.Scratch("c01"))
	defer os.RemoveAll(filepath.Dir(dir.Path))
	defer dir.Close()
	eachCase(c, nil, func(sc streamCase) {
		c.Count("evaluations", 1)
		c.Count("stream_"+sc.stream, 1)
		o := runCase(dir, sc, false)
		c.Distinct(sc.stream + "|" + sc.label)
		if o.LibFault != "" {
			c.Violate("runtime-fault-swallowed", "lib-fault@"+o.LibFault, sc.stream+" "+sc.label+": a Go runtime fault inside the schema library was recovered and turned into the outcome "+o.Short()+" (fault at "+o.LibFault+")", map[string]interface{}{"project": sc.proj, "options": sc.opt})
		}
		switch {
		case o.Crashed():
			sig := "panic:" + o.Site + ":" + firstWordsN(o.Panic, 5)
			// deterministic?
			if runCase(dir, sc, false).Crashed() {
				c.Violate("panic", sig, sc.stream+" "+sc.label+": the library panicked: "+o.Panic+" at "+o.Site, map[string]interface{}{"project": sc.proj, "options": sc.opt, "stack": clipS(o.Stack, 1500)})
			}
		case o.Rejected():
			if m := runtimeFaultIn(o.ErrText + " " + o.Msg); m != "" && o.LibFault == "" {
				c.Violate("runtime-fault-as-diagnostic", "fault-as-diagnostic:"+m+":"+sc.stream, sc.stream+" "+sc.label+": a Go runtime fault is reported as a diagnostic: "+o.Msg, map[string]interface{}{"project": sc.proj, "options": sc.opt})
			}
			c.Count("rejected", 1)
		case o.Kind == "sererr":
			c.Violate("accepted-but-not-serialisable", "sererr:"+firstWordsN(o.Msg, 4), sc.stream+" "+sc.label+": validation accepted the project but serialisation failed: "+o.Msg, map[string]interface{}{"project": sc.proj})
		default:
			c.Count("accepted", 1)
		}
		c.Sample(sc.stream, 1, map[string]interface{}{"stream": sc.stream, "label": sc.label, "root": clipS(sc.proj.Files[sc.proj.Root], 200), "outcome": o.Short()})
	})
}
