//go:build verif

package checks

import (
	"fmt"
	"os"
	"path/filepath"
	"runtime"
	"strings"
	"sync"
	"sync/atomic"
	"time"

	"verif/internal/fw"

	"github.com/jsightapi/jsight-api-go-library/core"
	"github.com/jsightapi/jsight-api-go-library/directive"
	"github.com/jsightapi/jsight-schema-go-library/fs"
)

func init() {
	fw.Register(&fw.Check{
		ID: "C06", Level: "model_checking", InProcess: true,
		Rule: "explicit-state BFS: a state is the reference resolver's configuration (stack of open directives with their explicit flags + the pending directive); from every reachable state every token of the alphabet (each of the 29 directive kinds in a canonical scanner-valid rendering, HTTP methods both path-less and path-bearing, '(' and ')') is appended to the state's representative sequence, the text is run through the real scanner + scanProject (hook VerifScan) and the directive forest (or the rejection and its position) is compared with the reference resolver's, and for every accepted sequence without PASTE the second forest the library builds after macro expansion (the one the catalog comes from) must be the first minus the MACRO declarations; then a second pass in which every state is expanded again from a history-rich representative (reached through its deepest predecessors: what was opened and left before is still in the text), so that state the implementation keeps beyond the reference state shows, and a third pass that appends ')' and then every token to the history-rich representative of every state with an open parenthesis; then re-resolution after PASTE: every macro body of <= 2 directives pasted at a representative of every reachable stack; non-trivial = transition whose sequence is accepted with >= 2 directives or rejected for context; distinct = reference states ; E-REFCAT (see C04): on every fixture and pool selection the scan-phase forest of the implementation equals the forest the reference resolver builds from the document's own lexemes, and both reject for context in the same cases ; INCLUDE boundaries: ALL token sequences of length 2..3 (thorough: 4 over 18 tokens) x every contiguous run of whole directives (without parentheses of its own) moved into an included file: forest and kind of rejection = the reference resolver's on the sequence written in one file ; two-level includes (root -> a.jst -> b.jst): every nesting of four split points, parentheses anywhere (also across file boundaries), reduced alphabet, length 2..3",
		Assume: []string{"admissibility of a kind under a kind is taken from the library's public predicates (the table is unit-tested cell by cell; the walk is what is checked)",
			"'(' when no directive is pending is outside the property's sentence and is not generated (C01 covers it)"},
		Run: runC06, QuickCap: 10 * time.Minute, ThoroughCap: 40 * time.Minute,
	})
}

type ctxTok struct {
	name   string // token name (kind, or kind/p for a path-bearing method)
	kw     string // keyword as dumped by the library
	text   string // canonical rendering (may span lines), without final newline
	enum   directive.Enumeration
	path   bool // HTTP method with a path
	method bool
}

func ctxAlphabet() []ctxTok {
	e := func(kw string) directive.Enumeration {
		v, err := directive.NewDirectiveType(kw)
		if err != nil {
			panic(kw)
		}
		return v
	}
	t := []ctxTok{
		{name: "JSIGHT", text: "JSIGHT 0.3"}, {name: "INFO", text: "INFO"}, {name: "Title", text: "Title \"T\""}, {name: "Version", text: "Version 1"},
		{name: "Description", text: "Description\n(\n  text\n)"}, {name: "SERVER", text: "SERVER @s"}, {name: "BaseUrl", text: "BaseUrl \"http://x/\""},
		{name: "URL", text: "URL /u"},
	}
	for _, m := range []string{"GET", "POST", "PUT", "PATCH", "DELETE"} {
		t = append(t, ctxTok{name: m, text: m, method: true}, ctxTok{name: m + "/p", kw: m, text: m + " /p", method: true, path: true})
	}
	t = append(t,
		ctxTok{name: "Body", text: "Body any"}, ctxTok{name: "Request", text: "Request any"}, ctxTok{name: "200", text: "200 any"},
		ctxTok{name: "Path", text: "Path\n{\"id\": 1}"}, ctxTok{name: "Headers", text: "Headers\n{\"H\": \"v\"}"}, ctxTok{name: "Query", text: "Query\n{\"q\": 1}"},
		ctxTok{name: "TYPE", text: "TYPE @t any"}, ctxTok{name: "ENUM", text: "ENUM @e\n[1]"}, ctxTok{name: "MACRO", text: "MACRO @m"}, ctxTok{name: "PASTE", text: "PASTE @m"},
		ctxTok{name: "Protocol", text: "Protocol json-rpc-2.0"}, ctxTok{name: "Method", text: "Method mm"}, ctxTok{name: "Params", text: "Params\n{}"}, ctxTok{name: "Result", text: "Result\n{}"},
		ctxTok{name: "TAG", text: "TAG @g"}, ctxTok{name: "Tags", text: "Tags @g"},
		ctxTok{name: "(", text: "("}, ctxTok{name: ")", text: ")"},
	)
	for i := range t {
		if t[i].kw == "" {
			t[i].kw = t[i].name
		}
		if t[i].name != "(" && t[i].name != ")" {
			t[i].enum = e(t[i].kw)
		}
	}
	return t
}

// frame of the reference resolver.
type rframe struct {
	tok      int
	explicit bool
	node     *rnode
}

type rnode struct {
	tok      int
	explicit bool
	kids     []*rnode
	pos      int // index in the token sequence
}

type rstate struct {
	stack    []rframe // outermost first
	pending  *rnode
	roots    []*rnode
	rejected string // "" | ctx | close | eof
	rejAt    int    // token index the rejection points at
}

// refStep applies one token to the reference resolver. The sentence of C06: nearest still-open
// enclosing directive (starting from the previous one, walking outwards) whose kind admits it,
// else top level if its kind may stand there; the walk never leaves an open parenthesised
// context. A URL admits an HTTP method only without a path of its own.
func (s *rstate) commit(al []ctxTok) {
	p := s.pending
	if p == nil || s.rejected != "" {
		return
	}
	s.pending = nil
	d := al[p.tok]
	for {
		if len(s.stack) == 0 {
			if d.enum.IsAllowedForRootContext() {
				s.roots = append(s.roots, p)
				s.stack = append(s.stack, rframe{p.tok, p.explicit, p})
				return
			}
			s.rejected, s.rejAt = "ctx", p.pos
			return
		}
		f := s.stack[len(s.stack)-1]
		fk := al[f.tok]
		admits := fk.enum.IsAllowedForDirectiveContext(d.enum)
		if admits && fk.kw == "URL" && d.method && d.path {
			admits = false // a method with its own path is not the URL's method
		}
		if admits {
			f.node.kids = append(f.node.kids, p)
			s.stack = append(s.stack, rframe{p.tok, p.explicit, p})
			return
		}
		if f.explicit {
			s.rejected, s.rejAt = "ctx", p.pos
			return
		}
		s.stack = s.stack[:len(s.stack)-1]
	}
}

func (s *rstate) step(al []ctxTok, tok int, pos int) {
	if s.rejected != "" {
		return
	}
	switch al[tok].name {
	case "(":
		if s.pending != nil {
			s.pending.explicit = true
		}
	case ")":
		s.commit(al)
		if s.rejected != "" {
			return
		}
		for {
			if len(s.stack) == 0 {
				s.rejected, s.rejAt = "close", pos
				return
			}
			f := s.stack[len(s.stack)-1]
			s.stack = s.stack[:len(s.stack)-1]
			if f.node.explicit {
				return
			}
		}
	default:
		s.commit(al)
		if s.rejected != "" {
			return
		}
		s.pending = &rnode{tok: tok, pos: pos}
	}
}

func (s *rstate) end(al []ctxTok) {
	s.commit(al)
	if s.rejected != "" {
		return
	}
	for _, f := range s.stack {
		if f.node.explicit {
			s.rejected = "eof"
			return
		}
	}
}

func (s *rstate) key(al []ctxTok) string {
	if s.rejected != "" {
		return "REJ"
	}
	var b strings.Builder
	for _, f := range s.stack {
		b.WriteString(al[f.tok].name)
		if f.node.explicit {
			b.WriteByte('!')
		}
		b.WriteByte('>')
	}
	b.WriteByte('|')
	if s.pending != nil {
		b.WriteString(al[s.pending.tok].name)
		if s.pending.explicit {
			b.WriteByte('!')
		}
	}
	return b.String()
}

func dumpRef(al []ctxTok, roots []*rnode) string {
	var b strings.Builder
	var rec func(n *rnode)
	rec = func(n *rnode) {
		b.WriteByte('(')
		b.WriteString(al[n.tok].kw)
		if n.explicit {
			b.WriteByte('!')
		}
		for _, k := range n.kids {
			b.WriteByte(' ')
			rec(k)
		}
		b.WriteByte(')')
	}
	for i, r := range roots {
		if i > 0 {
			b.WriteByte(' ')
		}
		rec(r)
	}
	return b.String()
}

func refRun(al []ctxTok, seq []int) *rstate {
	s := &rstate{}
	for i, t := range seq {
		s.step(al, t, i)
	}
	return s
}

// renderSeq renders a token sequence and returns the offset of every token.
func renderSeq(al []ctxTok, seq []int) (string, []int) {
	var b strings.Builder
	offs := make([]int, len(seq))
	for i, t := range seq {
		offs[i] = b.Len()
		b.WriteString(al[t].text)
		b.WriteByte('\n')
	}
	return b.String(), offs
}

type implResult struct {
	tree  string
	rej   string // "" | ctx | close | eof | other
	msg   string
	index int
	crash string
}

func implScan(text string) (r implResult) {
	defer func() {
		if p := recover(); p != nil {
			r = implResult{crash: fmt.Sprint(p)}
		}
	}()
	c := core.NewJApiCore(fs.NewFile("root.jst", []byte(text)))
	tree, je := c.VerifScan()
	if je != nil {
		r.msg = je.Msg
		r.index = int(je.Index())
		switch {
		case strings.HasPrefix(je.Msg, "incorrect context of directive"):
			r.rej = "ctx"
		case strings.HasPrefix(je.Msg, "there is no explicit context for closure"):
			r.rej = "close"
		case strings.HasPrefix(je.Msg, "not all explicit contexts are closed"):
			r.rej = "eof"
		default:
			r.rej = "other"
		}
		return r
	}
	r.tree = tree
	return r
}

// implPaste runs scanning, macro collection and paste expansion and returns the expanded forest.
func implPaste(text string) (r implResult) {
	defer func() {
		if p := recover(); p != nil {
			r = implResult{crash: fmt.Sprint(p)}
		}
	}()
	c := core.NewJApiCore(fs.NewFile("root.jst", []byte(text)))
	_, pasted, je := c.VerifScanAndPaste()
	if je != nil {
		r.msg = je.Msg
		r.index = int(je.Index())
		r.rej = "other"
		if strings.Contains(je.Msg, "incorrect context of directive") {
			r.rej = "ctx"
		}
		return r
	}
	r.tree = pasted
	return r
}

func seqNames(al []ctxTok, seq []int) string {
	var s []string
	for _, t := range seq {
		s = append(s, al[t].name)
	}
	return strings.Join(s, " ")
}

func runC06(c *fw.Ctx) {
	if refcatHook != nil {
		refcatHook(c, "C06")
	}
	runC06Includes(c)
	al := ctxAlphabet()
	type node struct {
		seq []int
		id  int
	}
	index := map[string]int{}
	s0 := &rstate{}
	index[s0.key(al)] = 0
	frontier := []node{{nil, 0}}
	allNodes := [][]int{nil}
	// the deepest predecessor of every state (for the history-rich representatives of pass 2)
	type predEdge struct{ pred, tok, depth int }
	bestPred := []predEdge{{-1, -1, -1}}
	var transitions, accepted, ctxRej, otherErr, mism, pasteForests int64
	var nontrivial int64
	workers := runtime.NumCPU()
	depth := 0
	maxDepthSeen := 0
	var vmu sync.Mutex
	sigCount := map[string]int{}
	states := 1
	// doTransition appends token t to the representative sequence base, runs the real scan phase
	// (and the second resolution after macro expansion) on the rendered text and compares with
	// the reference resolver; it returns the reference state's key and whether the state is live.
	doTransition := func(base []int, t int) (string, []int, bool) {
		seq := append(append([]int{}, base...), t)
		atomic.AddInt64(&transitions, 1)
		// reference on the whole sequence with end of input
		rs := refRun(al, seq)
		keyBeforeEnd := rs.key(al)
		// deep-copying the reference state is avoided by re-running it for the end
		re := refRun(al, seq)
		re.end(al)
		text, offs := renderSeq(al, seq)
		ir := implScan(text)
		bad := ""
		switch {
		case ir.crash != "":
			bad = "the library crashes instead of placing or rejecting the directive: " + ir.crash
		case ir.rej == "other":
			atomic.AddInt64(&otherErr, 1)
			bad = fmt.Sprintf("unexpected diagnostic %q at %d (the rendering should be scanner-valid)", ir.msg, ir.index)
		case re.rejected == "" && ir.rej != "":
			bad = fmt.Sprintf("reference places every directive, the library rejects: %q at %d", ir.msg, ir.index)
		case re.rejected != "" && ir.rej == "":
			bad = fmt.Sprintf("reference rejects (%s at token %d), the library accepts with forest %s", re.rejected, re.rejAt, ir.tree)
		case re.rejected != "" && re.rejected != ir.rej:
			bad = fmt.Sprintf("reference rejects with %s, the library with %s (%q)", re.rejected, ir.rej, ir.msg)
		case re.rejected == "ctx" && ir.index != offs[re.rejAt]:
			bad = fmt.Sprintf("incorrect-context diagnostic at %d, the misplaced directive's keyword (token %d) is at %d", ir.index, re.rejAt, offs[re.rejAt])
		case re.rejected == "" && ir.tree != dumpRef(al, re.roots):
			bad = fmt.Sprintf("forest differs: library %s, reference %s", ir.tree, dumpRef(al, re.roots))
		}
		if bad == "" && re.rejected == "" && ir.rej == "" && !strings.Contains(" "+seqNames(al, seq)+" ", " PASTE ") {
			// the catalog is built from a second forest, made by resolving the same
			// sequence again after macro expansion: without a PASTE it must be the
			// first forest minus the MACRO declarations
			var want []string
			for _, t := range parseForest(ir.tree) {
				if t.kw != "MACRO" {
					want = append(want, t.sexpr())
				}
			}
			ip := implPaste(text)
			atomic.AddInt64(&pasteForests, 1)
			switch {
			case ip.crash != "":
				bad = "the library crashes while resolving the sequence again after macro expansion: " + ip.crash
			case ip.rej != "":
				if ip.rej == "ctx" {
					bad = fmt.Sprintf("accepted by the scan phase, rejected for context when resolved again after macro expansion: %q at %d", ip.msg, ip.index)
				}
			case ip.tree != strings.Join(want, " "):
				bad = fmt.Sprintf("second forest (after macro expansion) differs from the first: %s vs %s", ip.tree, strings.Join(want, " "))
			}
		}
		if re.rejected == "" && ir.rej == "" {
			atomic.AddInt64(&accepted, 1)
			if len(seq) >= 2 {
				atomic.AddInt64(&nontrivial, 1)
			}
		}
		if re.rejected == "ctx" {
			atomic.AddInt64(&ctxRej, 1)
			atomic.AddInt64(&nontrivial, 1)
		}
		if bad != "" {
			atomic.AddInt64(&mism, 1)
			sig := "C06:" + ctxSig(al, seq, re, ir)
			vmu.Lock()
			sigCount[sig]++
			n := sigCount[sig]
			vmu.Unlock()
			if n <= 2 {
				// deterministic? run again
				ir2 := implScan(text)
				if ir2.tree == ir.tree && ir2.rej == ir.rej && ir2.index == ir.index {
					c.Violate("context-resolution", sig, fmt.Sprintf("sequence [%s]: %s", seqNames(al, seq), bad), map[string]interface{}{"sequence": seqNames(al, seq), "text": text})
				}
			}
		}
		return keyBeforeEnd, seq, rs.rejected == ""
	}
	for len(frontier) > 0 {
		if c.Expired() {
			c.NotExhaustive("time cap reached before the BFS over the reference states saturated")
			break
		}
		depth++
		type out struct {
			key     string
			seq     []int
			baseLen int
		}
		outs := make([][]out, len(frontier))
		var wg sync.WaitGroup
		ch := make(chan int, len(frontier))
		for i := range frontier {
			ch <- i
		}
		close(ch)
		for w := 0; w < workers; w++ {
			wg.Add(1)
			go func() {
				defer wg.Done()
				for i := range ch {
					base := frontier[i].seq
					for t := range al {
						baseState := refRun(al, base)
						if al[t].name == "(" && baseState.pending == nil {
							continue // outside the sentence
						}
						if al[t].name == "(" && baseState.pending != nil && baseState.pending.explicit {
							continue // a second '(' for the same directive: scanner-level matter
						}
						key, seq, live := doTransition(base, t)
						if live {
							outs[i] = append(outs[i], out{key, seq, len(base)})
						}

					}
				}
			}()
		}
		wg.Wait()
		var next []node
		for fi, os := range outs {
			for _, o := range os {
				id, known := index[o.key]
				if !known {
					id = len(allNodes)
					index[o.key] = id
					states++
					next = append(next, node{o.seq, id})
					allNodes = append(allNodes, o.seq)
					bestPred = append(bestPred, predEdge{-1, -1, -1})
					if len(o.seq) > maxDepthSeen {
						maxDepthSeen = len(o.seq)
					}
				}
				if pd := len(frontier[fi].seq); pd > bestPred[id].depth && frontier[fi].id != id {
					bestPred[id] = predEdge{frontier[fi].id, o.seq[len(o.seq)-1], pd}
				}
			}
		}
		frontier = next
	}
	// pass 2: history-rich representatives. The reference state forgets how it was reached; the
	// implementation might not (a saved context, a flag). Every state is therefore expanded a
	// second time, from a representative that reaches it through its deepest predecessors (up to 8
	// steps back, then that state's shortest representative): a state that is reached by closing a
	// parenthesis is entered with everything that was opened and left before still in the text
	// (quick tier: states with at most 3 open directives).
	var pass2States, pass2Transitions int64
	if !c.Expired() {
		rep2 := func(id int) []int {
			var toks []int
			cur := id
			for k := 0; k < 8 && bestPred[cur].pred >= 0; k++ {
				toks = append(toks, bestPred[cur].tok)
				cur = bestPred[cur].pred
			}
			out := append([]int{}, allNodes[cur]...)
			for i := len(toks) - 1; i >= 0; i-- {
				out = append(out, toks[i])
			}
			return out
		}
		ch := make(chan int, len(allNodes))
		for id := range allNodes {
			ch <- id
		}
		close(ch)
		var wg sync.WaitGroup
		for w := 0; w < workers; w++ {
			wg.Add(1)
			go func() {
				defer wg.Done()
				for id := range ch {
					if c.Expired() {
						continue
					}
					base := rep2(id)
					if len(base) == len(allNodes[id]) {
						continue // no richer history than the first representative
					}
					baseState := refRun(al, base)
					if c.Quick() && len(baseState.stack) > 3 {
						continue // quick tier: states with at most 3 open directives (thorough: all)
					}
					atomic.AddInt64(&pass2States, 1)
					for t := range al {
						if al[t].name == "(" && (baseState.pending == nil || baseState.pending.explicit) {
							continue
						}
						atomic.AddInt64(&pass2Transitions, 1)
						doTransition(base, t)
					}
				}
			}()
		}
		wg.Wait()
		if c.Expired() {
			c.NotExhaustive("time cap reached during the second pass (history-rich representatives)")
		}
	}
	// pass 3: every way of closing a parenthesis x every next token. A closing parenthesis lands in
	// a state that forgets which directive was closed and how that directive had been placed; from
	// the history-rich representative of every state with an open parenthesis, ')' and then every
	// token are appended (quick: states with at most 4 open directives).
	var pass3Transitions int64
	if !c.Expired() {
		closeTok := -1
		for t := range al {
			if al[t].name == ")" {
				closeTok = t
			}
		}
		rep2 := func(id int) []int {
			var toks []int
			cur := id
			for k := 0; k < 8 && bestPred[cur].pred >= 0; k++ {
				toks = append(toks, bestPred[cur].tok)
				cur = bestPred[cur].pred
			}
			out := append([]int{}, allNodes[cur]...)
			for i := len(toks) - 1; i >= 0; i-- {
				out = append(out, toks[i])
			}
			return out
		}
		ch := make(chan int, len(allNodes))
		for id := range allNodes {
			ch <- id
		}
		close(ch)
		var wg sync.WaitGroup
		for w := 0; w < workers; w++ {
			wg.Add(1)
			go func() {
				defer wg.Done()
				for id := range ch {
					if c.Expired() {
						continue
					}
					base := append(rep2(id), closeTok)
					st := refRun(al, base)
					if st.rejected != "" {
						continue // nothing to close there
					}
					if c.Quick() && len(st.stack) > 3 {
						continue
					}
					for t := range al {
						if al[t].name == "(" && (st.pending == nil || st.pending.explicit) {
							continue
						}
						atomic.AddInt64(&pass3Transitions, 1)
						doTransition(base, t)
					}
				}
			}()
		}
		wg.Wait()
		if c.Expired() {
			c.NotExhaustive("time cap reached during the third pass (closing histories)")
		}
	}
	// phase 2: re-resolution after PASTE. Every macro body of 1 (quick) / <= 2 (thorough) directives
	// is pasted at the end of the representative of every reachable state whose sequence holds no
	// MACRO / PASTE of its own; the forest after paste expansion must equal the reference
	// resolution of the sequence with the body written in place.
	var pasteRuns, pasteCompared, pasteMism, pasteOther int64
	{
		var reps [][]int
		seenRep := map[string]bool{}
		for _, n := range allNodes {
			ok := true
			for _, t := range n {
				if al[t].name == "MACRO" || al[t].name == "PASTE" {
					ok = false
				}
			}
			if ok {
				k := seqNames(al, n)
				if !seenRep[k] {
					seenRep[k] = true
					reps = append(reps, n)
				}
			}
		}
		pasteTok, macroAdmits := -1, []int{}
		for i, t := range al {
			if t.name == "PASTE" {
				pasteTok = i
			}
			if t.name != "(" && t.name != ")" && t.name != "PASTE" && directive.Macro.IsAllowedForDirectiveContext(t.enum) {
				macroAdmits = append(macroAdmits, i)
			}
		}
		var bodies [][]int
		for _, a := range macroAdmits {
			bodies = append(bodies, []int{a})
		}
		if !c.Quick() {
			for _, a := range macroAdmits {
				for _, b := range macroAdmits {
					bodies = append(bodies, []int{a, b})
				}
			}
		}
		var wg sync.WaitGroup
		ch := make(chan int, len(reps))
		for i := range reps {
			ch <- i
		}
		close(ch)
		for w := 0; w < workers; w++ {
			wg.Add(1)
			go func() {
				defer wg.Done()
				for i := range ch {
					if c.Expired() {
						continue
					}
					base := reps[i]
					for _, body := range bodies {
						atomic.AddInt64(&pasteRuns, 1)
						inl := append(append([]int{}, base...), body...)
						re := refRun(al, inl)
						re.end(al)
						// the text: the macro first (parenthesised, self-delimiting), then the sequence, then the PASTE
						var mb strings.Builder
						mb.WriteString("MACRO @probe\n(\n")
						for _, t := range body {
							mb.WriteString(al[t].text + "\n")
						}
						mb.WriteString(")\n")
						seqText, _ := renderSeq(al, base)
						text := mb.String() + seqText + "PASTE @probe\n"
						scanRef := refRun(al, append(append([]int{}, base...), pasteTok))
						scanRef.end(al)
						if scanRef.rejected != "" {
							continue // PASTE itself has no place there, or a parenthesis is open: rejected while scanning
						}
						ir := implPaste(text)
						atomic.AddInt64(&pasteCompared, 1)
						bad := ""
						switch {
						case ir.crash != "":
							bad = "the library crashes during paste expansion: " + ir.crash
						case ir.rej == "other":
							// e.g. two ENUMs of one name in the body: rejected for a reason that is not about contexts
							atomic.AddInt64(&pasteOther, 1)
						case re.rejected == "ctx" && ir.rej == "":
							bad = fmt.Sprintf("after expansion a directive has no place (reference), the library accepts with forest %s", ir.tree)
						case re.rejected == "" && ir.rej == "ctx":
							bad = fmt.Sprintf("reference places every pasted directive, the library rejects: %q", ir.msg)
						case re.rejected == "" && ir.tree != dumpRef(al, re.roots):
							bad = fmt.Sprintf("forest after paste differs: library %s, reference %s", ir.tree, dumpRef(al, re.roots))
						}
						if bad != "" {
							atomic.AddInt64(&pasteMism, 1)
							sig := "C06:paste:" + firstWordsN(bad, 3) + ":" + al[body[0]].name
							vmu.Lock()
							sigCount[sig]++
							n := sigCount[sig]
							vmu.Unlock()
							if n <= 2 {
								c.Violate("paste-re-resolution", sig, fmt.Sprintf("sequence [%s] + PASTE of body [%s]: %s", seqNames(al, base), seqNames(al, body), bad), map[string]interface{}{"text": text})
							}
						}
					}
				}
			}()
		}
		wg.Wait()
	}
	c.Note("paste_runs", pasteRuns)
	c.Note("paste_forests_compared", pasteCompared)
	c.Note("paste_mismatches", pasteMism)
	c.Note("paste_rejected_for_other_reasons_not_judged", pasteOther)
	transitions += pasteCompared
	for k := range index {
		c.Distinct(k)
	}
	c.Count("transitions", transitions)
	c.Count("evaluations", transitions)
	c.Note("states", states)
	c.Note("alphabet_size", len(al))
	c.Note("bfs_depth", depth)
	c.Note("longest_representative", maxDepthSeen)
	c.Note("accepted_sequences", accepted)
	c.Note("second_forests_compared", pasteForests)
	c.Note("pass2_states_expanded_from_history_rich_representatives", pass2States)
	c.Note("pass2_transitions", pass2Transitions)
	c.Note("pass3_transitions_after_every_way_of_closing_a_parenthesis", pass3Transitions)
	c.Note("incorrect_context_rejections", ctxRej)
	c.Note("nontrivial_transitions", nontrivial)
	c.Note("mismatches", mism)
	c.Note("unexpected_diagnostics", otherErr)
	c.Note("traces_validated_against_impl", transitions)
	c.Sample("state", 3, map[string]interface{}{"example": "URL>GET!>|200  (stack outermost first, '!' = parenthesised, after '|' the pending directive)"})
}

// ctxSig locates a context-resolution mismatch: what kind of disagreement, for which directive
// kind under which enclosing kinds.
func ctxSig(al []ctxTok, seq []int, re *rstate, ir implResult) string {
	last := al[seq[len(seq)-1]].name
	cls := "forest"
	switch {
	case ir.crash != "":
		cls = "crash:" + firstWordsN(ir.crash, 6)
	case ir.rej == "other":
		cls = "unexpected:" + firstWordsN(ir.msg, 4)
	case re.rejected == "" && ir.rej != "":
		cls = "lib-rejects-" + ir.rej
	case re.rejected != "" && ir.rej == "":
		cls = "lib-accepts-ref-" + re.rejected
	case re.rejected != "" && re.rejected != ir.rej:
		cls = "reject-kind-" + re.rejected + "-vs-" + ir.rej
	case re.rejected == "ctx":
		cls = "position"
	}
	// which directive is concerned: for path-bearing methods say so
	conc := last
	for i := len(seq) - 1; i >= 0; i-- {
		if al[seq[i]].path {
			conc = "method/p"
			break
		}
	}
	return cls + ":" + conc
}

func init() {
	fw.DebugCmds["ctx"] = func(args []string) {
		a, b := implScan(args[0]), implPaste(args[0])
		fmt.Printf("scan : %+v\npaste: %+v\n", a, b)
	}
}

// runC06Includes: "reading directives in order" does not stop at file boundaries. ALL token
// sequences of length 2..3 (thorough: 4 over a reduced alphabet) x every way of moving a contiguous
// run of whole directives (without parentheses of its own) into an included file: the forest and
// the kind of rejection are those of the reference resolver on the sequence written in one file.
func runC06Includes(c *fw.Ctx) {
	al := ctxAlphabet()
	var toks []int
	jsight := -1
	for i, t := range al {
		if t.name == "JSIGHT" {
			jsight = i
			continue
		}
		toks = append(toks, i)
	}
	reduced := []int{}
	keep := map[string]bool{"URL": true, "GET": true, "GET/p": true, "POST/p": true, "200": true, "Request": true, "Body": true, "Headers": true, "TYPE": true, "Description": true, "Tags": true, "Path": true, "MACRO": true, "PASTE": true, "Method": true, "Protocol": true, "(": true, ")": true}
	for _, i := range toks {
		if keep[al[i].name] {
			reduced = append(reduced, i)
		}
	}
	dir := fw.Scratch("c06inc")
	defer os.RemoveAll(dir)
	root := filepath.Join(dir, "root.jst")
	inc := filepath.Join(dir, "inc.jst")
	scan := func(text string) (r implResult) {
		defer func() {
			if p := recover(); p != nil {
				r = implResult{crash: fmt.Sprint(p)}
			}
		}()
		cc := core.NewJApiCore(fs.NewFile(root, []byte(text)))
		tree, je := cc.VerifScan()
		if je != nil {
			r.msg = je.Msg
			switch {
			case strings.HasPrefix(je.Msg, "incorrect context of directive"):
				r.rej = "ctx"
			case strings.HasPrefix(je.Msg, "there is no explicit context for closure"):
				r.rej = "close"
			case strings.HasPrefix(je.Msg, "not all explicit contexts are closed"):
				r.rej = "eof"
			default:
				r.rej = "other"
			}
			return r
		}
		r.tree = tree
		return r
	}
	var seq []int
	judge := func() {
		full := append([]int{jsight}, seq...)
		re := refRun(al, full)
		re.end(al)
		want := dumpRef(al, re.roots)
		for i := 0; i < len(seq); i++ {
			for j := i + 1; j <= len(seq); j++ {
				paren := false
				for _, t := range seq[i:j] {
					if al[t].name == "(" || al[t].name == ")" {
						paren = true
					}
				}
				if paren || !c.Next() {
					continue
				}
				c.Count("evaluations", 1)
				var rb, ib strings.Builder
				rb.WriteString(al[jsight].text + "\n")
				for _, t := range seq[:i] {
					rb.WriteString(al[t].text + "\n")
				}
				rb.WriteString("INCLUDE inc.jst\n")
				for _, t := range seq[j:] {
					rb.WriteString(al[t].text + "\n")
				}
				for _, t := range seq[i:j] {
					ib.WriteString(al[t].text + "\n")
				}
				if err := os.WriteFile(inc, []byte(ib.String()), 0o644); err != nil {
					c.NotExhaustive("scratch file: " + err.Error())
					return
				}
				ir := scan(rb.String())
				label := fmt.Sprintf("sequence [%s], tokens %d..%d in an included file", seqNames(al, seq), i, j-1)
				witness := map[string]interface{}{"project": map[string]interface{}{"root": "root.jst", "files": map[string]string{"root.jst": rb.String(), "inc.jst": ib.String()}}}
				switch {
				case ir.crash != "":
					c.Violate("context-resolution", "C06:include:crash", label+": crash "+clipS(ir.crash, 200), witness)
				case ir.rej == "other":
					c.Count("include_rejected_for_other_reasons", 1)
				case re.rejected != "" && ir.rej == "":
					c.Violate("context-resolution", "C06:include:accepted:"+re.rejected, fmt.Sprintf("%s: written in one file the reference rejects (%s), across the file boundary the library builds %s", label, re.rejected, clipS(ir.tree, 200)), witness)
				case re.rejected == "" && ir.rej != "":
					c.Violate("context-resolution", "C06:include:rejected:"+ir.rej, fmt.Sprintf("%s: written in one file the reference builds %s, across the file boundary the library rejects (%s)", label, clipS(want, 200), ir.msg), witness)
				case re.rejected != "" && ir.rej != re.rejected:
					c.Violate("context-resolution", "C06:include:other-rejection", fmt.Sprintf("%s: reference rejects with %s, the library with %s", label, re.rejected, ir.rej), witness)
				case re.rejected == "" && ir.tree != want:
					c.Violate("context-resolution", "C06:include:forest", fmt.Sprintf("%s: forest %s, reference %s", label, clipS(ir.tree, 300), clipS(want, 300)), witness)
				default:
					c.Distinct("inc|" + label)
				}
			}
		}
	}
	// two levels: the root includes a.jst, which includes b.jst; parentheses may stand anywhere (a
	// parenthesis opened in one file and closed in another is the same text). Reduced alphabet.
	inc2 := filepath.Join(dir, "inc2.jst")
	judgeNested := func() {
		full := append([]int{jsight}, seq...)
		re := refRun(al, full)
		re.end(al)
		want := dumpRef(al, re.roots)
		n := len(seq)
		for i := 0; i <= n; i++ {
			for j := i; j <= n; j++ {
				for k := j + 1; k <= n; k++ {
					for l := k; l <= n; l++ {
						if !c.Next() {
							continue
						}
						c.Count("evaluations", 1)
						text := func(tt []int) string {
							var b strings.Builder
							for _, t := range tt {
								b.WriteString(al[t].text + "\n")
							}
							return b.String()
						}
						rootT := al[jsight].text + "\n" + text(seq[:i]) + "INCLUDE inc.jst\n" + text(seq[l:])
						aT := text(seq[i:j]) + "INCLUDE inc2.jst\n" + text(seq[k:l])
						bT := text(seq[j:k])
						if os.WriteFile(inc, []byte(aT), 0o644) != nil || os.WriteFile(inc2, []byte(bT), 0o644) != nil {
							c.NotExhaustive("scratch file")
							return
						}
						ir := scan(rootT)
						label := fmt.Sprintf("sequence [%s]: root holds tokens ..%d and %d.., a.jst %d..%d and %d..%d, b.jst %d..%d", seqNames(al, seq), i-1, l, i, j-1, k, l-1, j, k-1)
						witness := map[string]interface{}{"project": map[string]interface{}{"root": "root.jst", "files": map[string]string{"root.jst": rootT, "inc.jst": aT, "inc2.jst": bT}}}
						switch {
						case ir.crash != "":
							c.Violate("context-resolution", "C06:include2:crash", label+": crash "+clipS(ir.crash, 200), witness)
						case ir.rej == "other":
							c.Count("include_rejected_for_other_reasons", 1)
						case re.rejected != "" && ir.rej == "":
							c.Violate("context-resolution", "C06:include2:accepted:"+re.rejected, fmt.Sprintf("%s: written in one file the reference rejects (%s), over the three files the library builds %s", label, re.rejected, clipS(ir.tree, 200)), witness)
						case re.rejected == "" && ir.rej != "":
							c.Violate("context-resolution", "C06:include2:rejected:"+ir.rej, fmt.Sprintf("%s: written in one file the reference builds %s, over the three files the library rejects (%s)", label, clipS(want, 200), ir.msg), witness)
						case re.rejected != "" && ir.rej != re.rejected:
							c.Violate("context-resolution", "C06:include2:other-rejection", fmt.Sprintf("%s: reference rejects with %s, the library with %s", label, re.rejected, ir.rej), witness)
						case re.rejected == "" && ir.tree != want:
							c.Violate("context-resolution", "C06:include2:forest", fmt.Sprintf("%s: forest %s, reference %s", label, clipS(ir.tree, 300), clipS(want, 300)), witness)
						default:
							c.Distinct("inc2|" + label)
						}
					}
				}
			}
		}
	}
	var recN func(n int)
	recN = func(n int) {
		if len(seq) >= 2 {
			judgeNested()
		}
		if n == 0 || c.Expired() {
			return
		}
		for _, t := range reduced {
			seq = append(seq, t)
			recN(n - 1)
			seq = seq[:len(seq)-1]
		}
	}
	recN(3)
	var rec func(n int, alpha []int)
	rec = func(n int, alpha []int) {
		if len(seq) >= 2 {
			judge()
		}
		if n == 0 || c.Expired() {
			return
		}
		for _, t := range alpha {
			seq = append(seq, t)
			rec(n-1, alpha)
			seq = seq[:len(seq)-1]
		}
	}
	rec(3, toks)
	if !c.Quick() {
		// length 4 over the reduced alphabet (the shorter ones are covered above)
		var rec4 func(n int)
		rec4 = func(n int) {
			if len(seq) == 4 {
				judge()
				return
			}
			if c.Expired() {
				return
			}
			for _, t := range reduced {
				seq = append(seq, t)
				rec4(n - 1)
				seq = seq[:len(seq)-1]
			}
		}
		rec4(4)
	}
}
