//go:build verif && verifsched

package checks

import (
	"encoding/json"
	"errors"
	"fmt"
	"os"
	"os/exec"
	"sort"
	"strings"
	"sync"
	"time"

	"verif/internal/fw"

	"github.com/jsightapi/jsight-api-go-library/catalog"
	"github.com/jsightapi/jsight-api-go-library/core"
	"github.com/jsightapi/jsight-api-go-library/directive"
	"github.com/jsightapi/jsight-api-go-library/verifshim/vsync"
	"github.com/jsightapi/jsight-schema-go-library/fs"
)

func init() {
	fw.Register(&fw.Check{
		ID: "C16", Level: "model_checking",
		Rule:   "controlled cooperative scheduler + DFS over schedules with iterative preemption bounding (0, 1, 2; thorough 3) on a source-instrumented build (import \"sync\" -> scheduler-aware shim; every statement touching the guarded fields of a mutex-bearing struct or a mutable package-level variable preceded by an access hook = scheduling point; every write to a struct field reached through a pointer, and every read of a field that some statement writes, reported to the happens-before monitor without a scheduling point (all packages but the scanner); the pinned schema library's own synchronisation (two RWMutexes, one Once, two sync.Pools - the pools as deterministic LIFO free lists, fresh per execution, Get / Put scheduling points with the Put -> Get happens-before edge) redirected to the same shim; generated VerifResetGlobals). H1: for each of the 7 generated collection types, every scenario of 2 writers x 1 reader with one operation each from {Set, SetToTop, Update, Set other key} x {Get, Len, Each, MarshalJSON} on keys forced to collide, from an empty or pre-filled collection: no data race (vector-clock happens-before monitor), no deadlock, the history is linearizable against a sequential ordered-map reference (brute force over the <= 3! orders consistent with real time), no lost update, every key once in the order; H2: 2-3 threads making the process's first calls to NewDirectiveType; H3: two whole parses (same / different / rejected documents) against package-level state, and 2-3 whole parses that were handed the same option value, and two parses over ONE file object (results as alone, the caller's bytes unchanged); H4: one validated catalog whose first serialisation and reads happen in 2-3 threads at once (reference result from a second catalog built from the same text); plus a free-running pass of the same bodies under the Go race detector; non-trivial = schedule in which at least two threads touched the same object; distinct = distinct (scenario, schedule) ; H1 reader op keys-stop: an iteration stopped by its callback after the first element (what it leaves locked blocks the writers: deadlock)",
		Assume: []string{"weak-memory reorderings are not modelled: the happens-before monitor reports the race that would permit them", "the schema library's own synchronisation is covered only by the free-running race-detector pass"},
		Run:    runC16, QuickCap: 10 * time.Minute, ThoroughCap: 40 * time.Minute,
	})
}

func init() {
	// free-running pass: the same bodies on real goroutines (the shim passes through to the real
	// sync primitives when no exploration is active); meant to be run from a -race build
	fw.RacePass = func() {
		run := func(bodies []func()) {
			var wg sync.WaitGroup
			for _, b := range bodies {
				b := b
				wg.Add(1)
				go func() { defer wg.Done(); defer func() { recover() }(); b() }()
			}
			wg.Wait()
		}
		n := 0
		for round := 0; round < 20; round++ {
			for _, ad := range collAdapters() {
				_, set, setTop, update, get, length, keys, jsonKeys := ad.make()
				set("k0", "v")
				run([]func(){
					func() { set("k1", "a"); update("k1", "+x"); setTop("k2", "b") },
					func() { setTop("k1", "c"); set("k3", "d"); update("k0", "+y") },
					func() { get("k1"); length(); keys(); jsonKeys() },
					func() { keys(); get("k0"); jsonKeys(); length() },
				})
				n++
			}
			directive.VerifResetGlobals()
			run([]func(){
				func() { directive.NewDirectiveType("GET") },
				func() { directive.NewDirectiveType("200") },
				func() { directive.NewDirectiveType("bogus") },
			})
			texts := []string{"JSIGHT 0.3\nTYPE @t\n  {\"id\": 1}\nGET /a // note\n  200 @t\n", "JSIGHT 0.3\nTAG @g\nURL /b\n  POST\n    Tags @g\n    Request regex\n      /x+/\n    200 any\n", "JSIGHT 0.3\nGET /c\n  200 @nope\n"}
			var bodies []func()
			for i := 0; i < 6; i++ {
				t := texts[i%3]
				bodies = append(bodies, func() {
					cc := core.NewJApiCore(fs.NewFile("root.jst", []byte(t)), core.WithFixedSeedForRegex())
					if cc.ValidateJAPI() == nil {
						cc.Catalog().ToJson()
					}
				})
			}
			run(bodies)
			cc := core.NewJApiCore(fs.NewFile("root.jst", []byte(texts[1])), core.WithFixedSeedForRegex())
			if cc.ValidateJAPI() == nil {
				cat := cc.Catalog()
				run([]func(){func() { cat.ToJson() }, func() { cat.ToJsonIndent() }, func() { cat.Tags.Len(); cat.Interactions.Len() }, func() { cat.ToJson() }})
			}
			n += 3
		}
		fmt.Printf("racepass: %d concurrent groups executed\n", n)
	}
}

// ---------------------------------------------------------------- explorer

type execResult struct {
	points   []vsync.Point
	races    []vsync.Race
	deadlock string
	diverged string
	obs      string // observation of the harness (final state, results)
	bad      string // functional violation found by the harness oracle
	shared   int
}

type harness struct {
	maxBound int // 0 = the tier's bounds; -1 = no preemption at all; otherwise the highest preemption bound explored for this (long) harness
	name     string
	// setup returns the thread bodies, objects to mark shared, and a finish function evaluated after the run
	setup func() (bodies []func(), shared []interface{}, finish func() (obs string, bad string))
}

func runOnce(h harness, prefix []int) execResult {
	directive.VerifResetGlobals()
	catalog.VerifResetGlobals()
	core.VerifResetGlobals()
	bodies, shared, finish := h.setup()
	e := vsync.NewExploration(prefix, nil, false)
	for _, s := range shared {
		e.MarkShared(s)
	}
	e.Run(bodies)
	r := execResult{points: e.Points, races: e.Races, deadlock: e.Deadlock, diverged: e.Diverged, shared: len(e.SharedObjects())}
	if e.Deadlock == "" {
		r.obs, r.bad = finish()
	}
	return r
}

type exploreStats struct {
	executions int
	maxPoints  int
	outcomes   map[string]int
	capped     bool
}

// explore is the preemption-bounded DFS of the brief's idiom.
func explore(c *fw.Ctx, h harness, bound int, maxExec int, st *exploreStats, report func(kind, detail string, prefix []int)) {
	var rec func(prefix []int)
	rec = func(prefix []int) {
		if st.executions >= maxExec || c.Expired() {
			st.capped = true
			return
		}
		x := runOnce(h, prefix)
		st.executions++
		c.Count("evaluations", 1)
		if len(x.points) > st.maxPoints {
			st.maxPoints = len(x.points)
		}
		st.outcomes[x.obs]++
		choices := make([]int, len(x.points))
		for i, p := range x.points {
			choices[i] = p.Chosen
		}
		if x.shared > 0 || len(x.points) > 0 {
			c.Distinct(h.name + fmt.Sprint(choices))
		}
		switch {
		case x.diverged != "":
			report("harness-divergence", x.diverged, prefix)
			return
		case x.deadlock != "":
			report("deadlock", x.deadlock, choices)
		case len(x.races) > 0:
			report("data-race", fmt.Sprintf("%s: %s / %s", x.races[0].Object, x.races[0].A, x.races[0].B), choices)
		case x.bad != "":
			report("functional", x.bad, choices)
		}
		pre := 0
		for i := 0; i < len(x.points); i++ {
			p := x.points[i]
			if i >= len(prefix) {
				cost := pre
				if p.RunningEnabled {
					cost++
				}
				if cost <= bound {
					for alt := 1; alt < len(p.Enabled); alt++ {
						np := append(append([]int{}, choices[:i]...), alt)
						rec(np)
					}
				}
			}
			if p.Chosen != 0 && p.RunningEnabled {
				pre++
			}
		}
	}
	rec(nil)
}

// ---------------------------------------------------------------- H1: collections

type collAdapter struct {
	name string
	make func() (id interface{}, set func(k, v string), setTop func(k, v string), update func(k, suffix string), get func(k string) (string, bool), length func() int, keys func() string, jsonKeys func() string)
}

func jsonKeyOrder(b []byte, err error) string {
	if err != nil {
		return "ERR:" + err.Error()
	}
	// keys in source order
	dec := json.NewDecoder(strings.NewReader(string(b)))
	var keys []string
	depth := 0
	expectKey := false
	for {
		t, err := dec.Token()
		if err != nil {
			break
		}
		switch x := t.(type) {
		case json.Delim:
			if x == '{' || x == '[' {
				depth++
				expectKey = x == '{' && depth == 1
			} else {
				depth--
				expectKey = depth == 1
			}
		case string:
			if depth == 1 && expectKey {
				keys = append(keys, x)
				expectKey = false
			} else if depth == 1 {
				expectKey = true
			}
		default:
			if depth == 1 {
				expectKey = true
			}
		}
	}
	return strings.Join(keys, ",")
}

// eachStopAt > 0 makes the callbacks of the adapters' Each stop the iteration (by returning an
// error) after that many elements: the reader op "keys-stop".
var eachStopAt int

var errEachStop = errors.New("stop")

func eachStop(n int) error {
	if eachStopAt > 0 && n >= eachStopAt {
		return errEachStop
	}
	return nil
}

func collAdapters() []collAdapter {
	return []collAdapter{
		{"Servers", func() (interface{}, func(k, v string), func(k, v string), func(k, s string), func(k string) (string, bool), func() int, func() string, func() string) {
			m := &catalog.Servers{}
			return vsync.ID(m),
				func(k, v string) { m.Set(k, &catalog.Server{Annotation: v}) },
				func(k, v string) { m.SetToTop(k, &catalog.Server{Annotation: v}) },
				func(k, s string) {
					m.Update(k, func(v *catalog.Server) *catalog.Server { return &catalog.Server{Annotation: v.Annotation + s} })
				},
				func(k string) (string, bool) {
					v, ok := m.Get(k)
					if !ok || v == nil {
						return "", ok
					}
					return v.Annotation, ok
				},
				m.Len,
				func() string {
					var ks []string
					m.Each(func(k string, _ *catalog.Server) error { ks = append(ks, k); return eachStop(len(ks)) })
					return strings.Join(ks, ",")
				},
				func() string { return jsonKeyOrder(m.MarshalJSON()) }
		}},
		{"Tags", func() (interface{}, func(k, v string), func(k, v string), func(k, s string), func(k string) (string, bool), func() int, func() string, func() string) {
			m := &catalog.Tags{}
			return vsync.ID(m),
				func(k, v string) { m.Set(catalog.TagName(k), catalog.NewTag(k, v)) },
				func(k, v string) { m.SetToTop(catalog.TagName(k), catalog.NewTag(k, v)) },
				func(k, s string) {
					m.Update(catalog.TagName(k), func(v *catalog.Tag) *catalog.Tag { return catalog.NewTag(string(v.Name), v.Title+s) })
				},
				func(k string) (string, bool) {
					v, ok := m.Get(catalog.TagName(k))
					if !ok || v == nil {
						return "", ok
					}
					return v.Title, ok
				},
				m.Len,
				func() string {
					var ks []string
					m.Each(func(k catalog.TagName, _ *catalog.Tag) error { ks = append(ks, string(k)); return eachStop(len(ks)) })
					return strings.Join(ks, ",")
				},
				func() string { return jsonKeyOrder(m.MarshalJSON()) }
		}},
		{"UserTypes", func() (interface{}, func(k, v string), func(k, v string), func(k, s string), func(k string) (string, bool), func() int, func() string, func() string) {
			m := &catalog.UserTypes{}
			mk := func(a string) *catalog.UserType {
				return &catalog.UserType{Annotation: a, Schema: catalog.NewSchema("any")}
			}
			return vsync.ID(m),
				func(k, v string) { m.Set(k, mk(v)) },
				func(k, v string) { m.SetToTop(k, mk(v)) },
				func(k, s string) {
					m.Update(k, func(v *catalog.UserType) *catalog.UserType { return mk(v.Annotation + s) })
				},
				func(k string) (string, bool) {
					v, ok := m.Get(k)
					if !ok || v == nil {
						return "", ok
					}
					return v.Annotation, ok
				},
				m.Len,
				func() string {
					var ks []string
					m.Each(func(k string, _ *catalog.UserType) error { ks = append(ks, k); return eachStop(len(ks)) })
					return strings.Join(ks, ",")
				},
				func() string { return jsonKeyOrder(m.MarshalJSON()) }
		}},
		{"UserRules", func() (interface{}, func(k, v string), func(k, v string), func(k, s string), func(k string) (string, bool), func() int, func() string, func() string) {
			m := &catalog.UserRules{}
			mk := func(a string) *catalog.UserRule { return &catalog.UserRule{Annotation: a} }
			return vsync.ID(m),
				func(k, v string) { m.Set(k, mk(v)) },
				func(k, v string) { m.SetToTop(k, mk(v)) },
				func(k, s string) {
					m.Update(k, func(v *catalog.UserRule) *catalog.UserRule { return mk(v.Annotation + s) })
				},
				func(k string) (string, bool) {
					v, ok := m.Get(k)
					if !ok || v == nil {
						return "", ok
					}
					return v.Annotation, ok
				},
				m.Len,
				func() string {
					var ks []string
					m.Each(func(k string, _ *catalog.UserRule) error { ks = append(ks, k); return eachStop(len(ks)) })
					return strings.Join(ks, ",")
				},
				func() string { return jsonKeyOrder(m.MarshalJSON()) }
		}},
		{"Interactions", func() (interface{}, func(k, v string), func(k, v string), func(k, s string), func(k string) (string, bool), func() int, func() string, func() string) {
			m := &catalog.Interactions{}
			id := func(k string) catalog.InteractionID { return testID(k) }
			mk := func(a string) catalog.Interaction { return &catalog.JsonRpcInteraction{Id: a, Method: a} }
			return vsync.ID(m),
				func(k, v string) { m.Set(id(k), mk(v)) },
				func(k, v string) { m.SetToTop(id(k), mk(v)) },
				func(k, s string) {
					m.Update(id(k), func(v catalog.Interaction) catalog.Interaction { return mk(v.(*catalog.JsonRpcInteraction).Method + s) })
				},
				func(k string) (string, bool) {
					v, ok := m.Get(id(k))
					if !ok || v == nil {
						return "", ok
					}
					return v.(*catalog.JsonRpcInteraction).Method, ok
				},
				m.Len,
				func() string {
					var ks []string
					m.Each(func(k catalog.InteractionID, _ catalog.Interaction) error {
						ks = append(ks, k.String())
						return eachStop(len(ks))
					})
					return strings.Join(ks, ",")
				},
				func() string { return jsonKeyOrder(m.MarshalJSON()) }
		}},
		{"Directives", func() (interface{}, func(k, v string), func(k, v string), func(k, s string), func(k string) (string, bool), func() int, func() string, func() string) {
			m := &directive.Directives{}
			mk := func(a string) *directive.Directive {
				d := directive.New(directive.Type, directive.Coords{})
				d.Annotation = a
				return d
			}
			return vsync.ID(m),
				func(k, v string) { m.Set(k, mk(v)) },
				func(k, v string) { m.SetToTop(k, mk(v)) },
				func(k, s string) {
					m.Update(k, func(v *directive.Directive) *directive.Directive { return mk(v.Annotation + s) })
				},
				func(k string) (string, bool) {
					v, ok := m.Get(k)
					if !ok || v == nil {
						return "", ok
					}
					return v.Annotation, ok
				},
				m.Len,
				func() string {
					var ks []string
					m.Each(func(k string, _ *directive.Directive) error { ks = append(ks, k); return eachStop(len(ks)) })
					return strings.Join(ks, ",")
				},
				func() string { return jsonKeyOrder(m.MarshalJSON()) }
		}},
	}
}

type testID string

func (t testID) Protocol() catalog.Protocol   { return catalog.HTTP }
func (t testID) Path() catalog.Path           { return catalog.Path("/" + string(t)) }
func (t testID) String() string               { return string(t) }
func (t testID) MarshalText() ([]byte, error) { return []byte(t), nil }

// reference ordered map
type refMap struct {
	order []string
	data  map[string]string
}

func (r *refMap) clone() *refMap {
	c := &refMap{order: append([]string{}, r.order...), data: map[string]string{}}
	for k, v := range r.data {
		c.data[k] = v
	}
	return c
}

type opSpec struct {
	kind string // set | settop | update | setother | get | len | keys | json
}

func (r *refMap) apply(op opSpec, tid int) string {
	v := fmt.Sprintf("v%d", tid)
	switch op.kind {
	case "set", "setother":
		k := "k1"
		if op.kind == "setother" {
			k = "k2"
		}
		if _, ok := r.data[k]; !ok {
			r.order = append(r.order, k)
		}
		r.data[k] = v
		return ""
	case "settop":
		if _, ok := r.data["k1"]; !ok {
			r.order = append([]string{"k1"}, r.order...)
		}
		r.data["k1"] = v
		return ""
	case "update":
		if old, ok := r.data["k1"]; ok {
			r.data["k1"] = old + fmt.Sprintf("+u%d", tid)
		}
		return ""
	case "get":
		x, ok := r.data["k1"]
		return fmt.Sprintf("%s/%v", x, ok)
	case "len":
		return fmt.Sprint(len(r.data))
	case "keys", "json":
		return strings.Join(r.order, ",")
	case "keys-stop": // an iteration its callback stops after the first element
		if len(r.order) == 0 {
			return ""
		}
		return r.order[0]
	}
	return "?"
}

func (r *refMap) final() string {
	var vs []string
	for _, k := range r.order {
		vs = append(vs, k+"="+r.data[k])
	}
	return strings.Join(vs, ";")
}

// ---------------------------------------------------------------- the check

func runC16(c *fw.Ctx) {
	bounds := []int{0, 1, 2}
	maxExec := 30000
	if !c.Quick() {
		bounds = []int{0, 1, 2, 3}
		maxExec = 400000
	}
	report := func(hname string) func(kind, detail string, prefix []int) {
		seen := map[string]bool{}
		return func(kind, detail string, prefix []int) {
			if kind == "harness-divergence" {
				c.Note("harness_fault", hname+": "+detail)
				c.NotExhaustive("replay of a schedule prefix diverged in " + hname)
				return
			}
			sig := "C16:" + kind + ":" + strings.SplitN(hname, " ", 2)[0]
			if seen[sig] {
				c.Count("violations_raw", 1)
				return
			}
			seen[sig] = true
			c.Violate(kind, sig, fmt.Sprintf("%s: %s (schedule %v)", hname, detail, prefix), map[string]interface{}{"harness": hname, "schedule": prefix})
		}
	}
	runHarness := func(h harness) {
		if !c.Next() {
			return
		}
		c.Describe(h.name)
		// determinism of the harness: the first schedule twice
		a, b := runOnce(h, nil), runOnce(h, nil)
		if a.obs != b.obs || len(a.points) != len(b.points) {
			c.Note("harness_fault", h.name+": the same schedule gave different observations")
			c.NotExhaustive("nondeterministic harness " + h.name)
			return
		}
		st := &exploreStats{outcomes: map[string]int{}}
		completed := -1
		for _, bnd := range bounds {
			if h.maxBound > 0 && bnd > h.maxBound || h.maxBound < 0 && bnd > 0 {
				break
			}
			before := st.executions
			st2 := &exploreStats{outcomes: st.outcomes}
			explore(c, h, bnd, maxExec, st2, report(h.name))
			st.executions += st2.executions
			if st2.maxPoints > st.maxPoints {
				st.maxPoints = st2.maxPoints
			}
			if st2.capped {
				st.capped = true
				break
			}
			completed = bnd
			_ = before
		}
		c.Count("schedules", int64(st.executions))
		c.Count("harnesses", 1)
		if st.capped {
			c.Count("harnesses_capped", 1)
			c.NotExhaustive(fmt.Sprintf("%s: execution cap hit; completed preemption bound %d", h.name, completed))
		}
		if len(st.outcomes) > 1 {
			c.Count("harnesses_with_several_outcomes", 1)
		}
		c.Sample(strings.SplitN(h.name, " ", 2)[0], 1, map[string]interface{}{"harness": h.name, "schedules": st.executions, "max_scheduling_points": st.maxPoints, "distinct_outcomes": len(st.outcomes), "completed_bound": completed})
	}

	// H1
	writers := []string{"set", "settop", "update", "setother"}
	readers := []string{"get", "len", "keys", "json", "keys-stop"}
	for _, ad := range collAdapters() {
		ad := ad
		for _, pre := range []bool{false, true} {
			for _, w1 := range writers {
				for _, w2 := range writers {
					for _, rd := range readers {
						pre, w1, w2, rd := pre, w1, w2, rd
						h := harness{name: fmt.Sprintf("H1-%s pre=%v w1=%s w2=%s r=%s", ad.name, pre, w1, w2, rd)}
						h.setup = func() ([]func(), []interface{}, func() (string, string)) {
							id, set, setTop, update, get, length, keys, jsonKeys := ad.make()
							if pre {
								set("k1", "v9")
							}
							results := make([]string, 3)
							var hmu sync.Mutex
							type ev struct{ call, ret int }
							evs := make([]ev, 3)
							clock := 0
							tick := func() int { hmu.Lock(); clock++; v := clock; hmu.Unlock(); return v }
							do := func(tid int, op string) func() {
								return func() {
									evs[tid].call = tick()
									v := fmt.Sprintf("v%d", tid)
									switch op {
									case "set":
										set("k1", v)
									case "setother":
										set("k2", v)
									case "settop":
										setTop("k1", v)
									case "update":
										update("k1", fmt.Sprintf("+u%d", tid))
									case "get":
										x, ok := get("k1")
										results[tid] = fmt.Sprintf("%s/%v", x, ok)
									case "len":
										results[tid] = fmt.Sprint(length())
									case "keys":
										results[tid] = keys()
									case "keys-stop":
										eachStopAt = 1
										results[tid] = keys()
										eachStopAt = 0
									case "json":
										results[tid] = jsonKeys()
									}
									evs[tid].ret = tick()
								}
							}
							ops := []string{w1, w2, rd}
							bodies := []func(){do(0, w1), do(1, w2), do(2, rd)}
							finish := func() (string, string) {
								// final state through the public API
								ks := keys()
								var fin []string
								seen := map[string]bool{}
								dup := ""
								for _, k := range strings.Split(ks, ",") {
									if k == "" {
										continue
									}
									if seen[k] {
										dup = k
									}
									seen[k] = true
									v, _ := get(k)
									fin = append(fin, k+"="+v)
								}
								final := strings.Join(fin, ";")
								obs := final + " | r=" + results[2]
								if dup != "" {
									return obs, "key " + dup + " appears twice in the order: " + ks
								}
								if length() != len(seen) {
									return obs, fmt.Sprintf("Len() = %d but the order holds %d keys (%s)", length(), len(seen), ks)
								}
								// linearizability: some order of the three operations consistent with real time
								// must explain the reader's result and the final state
								perm := [][]int{{0, 1, 2}, {0, 2, 1}, {1, 0, 2}, {1, 2, 0}, {2, 0, 1}, {2, 1, 0}}
								for _, p := range perm {
									ok := true
									for i := 0; i < 3 && ok; i++ {
										for j := i + 1; j < 3; j++ {
											if evs[p[j]].ret < evs[p[i]].call {
												ok = false
											}
										}
									}
									if !ok {
										continue
									}
									r := &refMap{data: map[string]string{}}
									if pre {
										r.order, r.data["k1"] = []string{"k1"}, "v9"
									}
									good := true
									for _, t := range p {
										res := r.apply(opSpec{ops[t]}, t)
										if t == 2 && res != results[2] {
											good = false
										}
									}
									if good && r.final() == final {
										return obs, ""
									}
								}
								return obs, fmt.Sprintf("history not linearizable: ops %v, reader saw %q, final state %q", ops, results[2], final)
							}
							return bodies, []interface{}{id}, finish
						}
						runHarness(h)
					}
				}
			}
		}
	}

	// H2: first calls to the keyword table
	for _, words := range [][]string{{"GET", "200"}, {"GET", "bogus"}, {"TYPE", "599", "Tags"}, {"200", "200"}} {
		words := words
		h := harness{name: "H2-keywords " + strings.Join(words, ",")}
		h.setup = func() ([]func(), []interface{}, func() (string, string)) {
			res := make([]string, len(words))
			var bodies []func()
			for i, w := range words {
				i, w := i, w
				bodies = append(bodies, func() {
					e, err := directive.NewDirectiveType(w)
					res[i] = fmt.Sprintf("%v/%v", e, err != nil)
				})
			}
			return bodies, []interface{}{vsync.GID("directive.ee")}, func() (string, string) {
				obs := strings.Join(res, " ")
				for i, w := range words {
					e, err := directive.NewDirectiveType(w)
					if want := fmt.Sprintf("%v/%v", e, err != nil); res[i] != want {
						return obs, fmt.Sprintf("NewDirectiveType(%q) returned %s concurrently, %s alone", w, res[i], want)
					}
				}
				return obs, ""
			}
		}
		runHarness(h)
	}

	// H3: whole parses
	docs := map[string]string{
		"ok-a":     "JSIGHT 0.3\nTYPE @t\n  {\"id\": 1}\nGET /a // note\n  200 @t\n",
		"ok-b":     "JSIGHT 0.3\nTAG @g\nURL /b\n  POST\n    Tags @g\n    Request regex\n      /x+/\n    200 any\n",
		"rejected": "JSIGHT 0.3\nGET /c\n  200 @nope\n",
		"ok-m":     "JSIGHT 0.3\nMACRO @m\n(\n  200 any\n)\nGET /m\n  PASTE @m\n",
		// documents that walk through as much of the library as one text can: quoted parameters with
		// escapes, INFO / SERVER / TAG / ENUM, allOf, macros, descriptions, both annotation spellings,
		// regex, path parameters, JSON-RPC (anything the library keeps outside the JApiCore of one
		// parse - a table, a cache, a scratch buffer - is touched by both threads)
		"rich-a": "JSIGHT 0.3\nINFO\n  Title \"A \\\"quoted\\\" \\\\ title\"\n  Version 1.0\n  Description\n    Text a\n      more\nSERVER @sa // main\n  BaseUrl \"https://a.io/v\\\\1\"\nTAG @ga /* group a */\nENUM @ea\n  [\"x\", \"y\"]\nTYPE @base\n  {\"id\": 1}\nTYPE @ta\n  { // {allOf: \"@base\"}\n    \"k\": \"x\" // {enum: @ea}\n  }\nMACRO @ma\n(\n  404 any\n)\nURL /a/{id}\n  Path\n    {\"id\": 1}\n  GET // get a\n    Tags @ga\n    Query \"q=\\\"1\\\"\"\n      {\"q\": \"1\"}\n    200 @ta\n    PASTE @ma\n  POST\n    Request regex\n      /a+/\n    201 [@ta]\nURL /rpc\n  Protocol json-rpc-2.0\n  Method \"do \\\\ a\"\n    Params\n      {\"p\": @ta}\n",
		"rich-b": "JSIGHT 0.3\nINFO\n  Title \"B \\\\\\\\ and \\\"b\\\"\"\n  Version \"2 \\\\ b\"\nSERVER @sb\n  BaseUrl \"https://b.io/\\\"x\\\"\"\nTAG @gb // group b\n  Description\n    about b\nENUM @eb\n  [1, 2]\nTYPE @tb\n  {\n    \"n\": 1, // {enum: @eb}\n    \"o\": {\"deep\": true}\n  }\nMACRO @mb\n(\n  Description\n    pasted b\n  500 any\n)\nDELETE /b/{bid} /* delete b */\n  Path\n    {\"bid\": \"z\"}\n  Tags @gb\n  Query \"w=\\\\2\"\n    {\"w\": 2}\n  PASTE @mb\n  204 empty\nPUT /b2\n  Request\n    Headers\n      {\"H\": \"v\"}\n    Body @tb\n  200 regex\n    /b{2}/\n",
	}
	parse := func(text string) string {
		cc := core.NewJApiCore(fs.NewFile("root.jst", []byte(text)), core.WithFixedSeedForRegex())
		if je := cc.ValidateJAPI(); je != nil {
			return fmt.Sprintf("err %d %s", je.Index(), je.Msg)
		}
		b, err := cc.Catalog().ToJson()
		if err != nil {
			return "sererr " + err.Error()
		}
		return string(b)
	}
	solo := map[string]string{}
	for k, v := range docs {
		solo[k] = parse(v)
	}
	for k, v := range solo {
		if strings.HasPrefix(k, "rich") && (strings.HasPrefix(v, "err ") || strings.HasPrefix(v, "sererr")) {
			c.Note("harness_fault", "H3 document "+k+" is not accepted: "+clipS(v, 200))
			c.NotExhaustive("H3 document " + k + " rejected")
		}
	}
	for _, pair := range [][]string{{"ok-a", "ok-a"}, {"ok-a", "ok-b"}, {"ok-b", "rejected"}, {"rejected", "rejected"}, {"rich-a", "rich-b"}, {"rich-a", "rich-a"}} {
		pair := pair
		h := harness{name: "H3-parses " + strings.Join(pair, "+")}
		// whole parses are long executions (every schema load goes through the schema library's
		// pools, each Get / Put a scheduling point): preemption bound 1 in the quick tier; in the
		// thorough tier 2 for the long documents and the tier's bound for the short ones
		if c.Quick() {
			h.maxBound = 1
		} else if strings.HasPrefix(pair[0], "rich") {
			h.maxBound = 2
		}
		h.setup = func() ([]func(), []interface{}, func() (string, string)) {
			res := make([]string, len(pair))
			var bodies []func()
			for i, d := range pair {
				i, d := i, d
				bodies = append(bodies, func() { res[i] = parse(docs[d]) })
			}
			return bodies, []interface{}{vsync.GID("directive.ee")}, func() (string, string) {
				for i, d := range pair {
					if res[i] != solo[d] {
						return "differs", fmt.Sprintf("document %s processed concurrently gives %s, alone %s", d, clipS(res[i], 120), clipS(solo[d], 120))
					}
				}
				return "same", ""
			}
		}
		runHarness(h)
	}

	// H3': option values made once and handed to several projects that are processed at the same
	// time (an Option is a reusable value of the public API): each project's result equals the
	// result it gives alone with freshly made option values
	{
		type proj struct {
			doc  string
			opts func(shared core.Option) []core.Option
		}
		fresh := func() core.Option { return core.WithBannedDirectives(directive.Include) }
		projs := map[string]proj{
			"two-bans": {"ok-a", func(sh core.Option) []core.Option {
				return []core.Option{core.WithFixedSeedForRegex(), sh, core.WithBannedDirectives(directive.Macro, directive.Paste)}
			}},
			"one-ban-macros": {"ok-m", func(sh core.Option) []core.Option { return []core.Option{core.WithFixedSeedForRegex(), sh} }},
			"one-ban-plain":  {"ok-b", func(sh core.Option) []core.Option { return []core.Option{sh, core.WithFixedSeedForRegex()} }},
		}
		parseWith := func(text string, oo []core.Option) string {
			cc := core.NewJApiCore(fs.NewFile("root.jst", []byte(text)), oo...)
			if je := cc.ValidateJAPI(); je != nil {
				return fmt.Sprintf("err %d %s", je.Index(), je.Msg)
			}
			b, err := cc.Catalog().ToJson()
			if err != nil {
				return "sererr " + err.Error()
			}
			return string(b)
		}
		soloO := map[string]string{}
		for k, p := range projs {
			soloO[k] = parseWith(docs[p.doc], p.opts(fresh()))
		}
		for _, set := range [][]string{{"two-bans", "one-ban-macros"}, {"one-ban-macros", "two-bans"}, {"two-bans", "one-ban-plain", "one-ban-macros"}, {"one-ban-macros", "one-ban-macros"}} {
			set := set
			h := harness{name: "H3-shared-options " + strings.Join(set, "+")}
			h.maxBound = 1
			if len(set) > 2 {
				h.maxBound = -1 // three long threads: every order of whole parses, no preemption
			}
			h.setup = func() ([]func(), []interface{}, func() (string, string)) {
				shared := fresh() // one value for all projects of this execution
				res := make([]string, len(set))
				var bodies []func()
				for i, k := range set {
					i, k := i, k
					bodies = append(bodies, func() { res[i] = parseWith(docs[projs[k].doc], projs[k].opts(shared)) })
				}
				return bodies, []interface{}{vsync.GID("directive.ee")}, func() (string, string) {
					for i, k := range set {
						if res[i] != soloO[k] {
							return "differs", fmt.Sprintf("project %s processed with an option value shared with the other projects gives %s, with its own option values %s", k, clipS(res[i], 120), clipS(soloO[k], 120))
						}
					}
					return "same", ""
				}
			}
			runHarness(h)
		}
	}

	// H3'': one file object handed to two projects that are processed at the same time (the library
	// only reads its input): each result equals the result from a private copy, and the caller's
	// bytes are what they were
	{
		shared := map[string]string{
			"crlf-description": strings.ReplaceAll("JSIGHT 0.3\nINFO\n  Title \"A \\\"q\\\" \\\\ t\"\n  Description\n    line one\n      line two\n    line three\n    line four\nGET /d // note\n  Description\n    a\n    b\n    c\n  200 any\n", "\n", "\r\n"),
			"lf-escapes":       "JSIGHT 0.3\nINFO\n  Title \"B \\\"x\\\" \\\\\"\nSERVER @s\n  BaseUrl \"http://h/\\\\p\"\nGET \"/q\"\n  Query \"a=\\\"1\\\"\"\n    {\"a\": \"1\"}\n  200 any\n",
		}
		parseFile := func(f *fs.File) string {
			cc := core.NewJApiCore(f, core.WithFixedSeedForRegex())
			if je := cc.ValidateJAPI(); je != nil {
				return fmt.Sprintf("err %d %s", je.Index(), je.Msg)
			}
			b, err := cc.Catalog().ToJson()
			if err != nil {
				return "sererr " + err.Error()
			}
			return string(b)
		}
		for name, text := range shared {
			name, text := name, text
			alone := parseFile(fs.NewFile("root.jst", []byte(text)))
			if strings.HasPrefix(alone, "err ") {
				c.Note("harness_fault", "H3'' document "+name+" is not accepted: "+clipS(alone, 200))
				c.NotExhaustive("H3'' document " + name + " rejected")
				continue
			}
			h := harness{name: "H3-shared-file " + name}
			h.maxBound = 1
			h.setup = func() ([]func(), []interface{}, func() (string, string)) {
				buf := []byte(text)
				f := fs.NewFile("root.jst", buf) // the file keeps this very slice
				res := make([]string, 2)
				bodies := []func(){func() { res[0] = parseFile(f) }, func() { res[1] = parseFile(f) }}
				return bodies, []interface{}{vsync.GID("directive.ee")}, func() (string, string) {
					for i := range res {
						if res[i] != alone {
							return "differs", fmt.Sprintf("project %d over the shared file object gives %s, alone %s", i, clipS(res[i], 120), clipS(alone, 120))
						}
					}
					if string(buf) != text {
						return "input-changed", "the bytes of the file object the caller handed in were changed"
					}
					return "same", ""
				}
			}
			runHarness(h)
		}
	}

	// H4: one catalog, concurrent serialisation and reads
	for _, n := range []int{2, 3} {
		n := n
		h := harness{name: fmt.Sprintf("H4-shared-catalog readers=%d", n)}
		if c.Quick() && n == 3 {
			h.maxBound = 1
		}
		h.setup = func() ([]func(), []interface{}, func() (string, string)) {
			cc := core.NewJApiCore(fs.NewFile("root.jst", []byte(docs["ok-b"]+"GET /z\n  200 any\nSERVER @s\n  BaseUrl \"http://x\"\n")), core.WithFixedSeedForRegex())
			if je := cc.ValidateJAPI(); je != nil {
				return nil, nil, func() (string, string) { return "", "setup rejected: " + je.Msg }
			}
			cat := cc.Catalog()
			// the reference result comes from a second catalog built from the same text: the shared
			// one must meet its first serialisation under concurrency (lazily built state)
			cc2 := core.NewJApiCore(fs.NewFile("root.jst", []byte(docs["ok-b"]+"GET /z\n  200 any\nSERVER @s\n  BaseUrl \"http://x\"\n")), core.WithFixedSeedForRegex())
			if je := cc2.ValidateJAPI(); je != nil {
				return nil, nil, func() (string, string) { return "", "setup rejected: " + je.Msg }
			}
			want, _ := cc2.Catalog().ToJson()
			res := make([]string, n)
			bodies := []func(){
				func() { b, _ := cat.ToJson(); res[0] = string(b) },
				func() {
					b, _ := cat.ToJsonIndent()
					var v interface{}
					json.Unmarshal(b, &v)
					c2, _ := json.Marshal(v)
					_ = c2
					res[1] = "indent-ok"
				},
			}
			if n == 3 {
				bodies = append(bodies, func() {
					l := cat.Interactions.Len() + cat.Tags.Len() + cat.Servers.Len()
					var ks []string
					cat.Tags.Each(func(k catalog.TagName, _ *catalog.Tag) error { ks = append(ks, string(k)); return eachStop(len(ks)) })
					res[2] = fmt.Sprint(l, ks)
				})
			}
			shared := []interface{}{vsync.ID(cat.Interactions), vsync.ID(cat.Tags), vsync.ID(cat.Servers), vsync.ID(cat.UserTypes), vsync.ID(cat.UserEnums)}
			return bodies, shared, func() (string, string) {
				if res[0] != string(want) {
					return "differs", "ToJson under concurrent readers differs from ToJson alone"
				}
				return "same", ""
			}
		}
		runHarness(h)
	}

	// free-running pass under the race detector (only shard 0 does it)
	if c.Shard == 0 {
		self, _ := os.Executable()
		racebin := strings.TrimSuffix(self, "vcheck-sched") + "vcheck-race"
		if _, err := os.Stat(racebin); err == nil {
			// the free-running pass may hang for real (a deadlock needs no scheduler to be one): it is
			// given 100 times its normal duration, twice, before that is reported
			runPass := func() (string, bool) {
				cmd := exec.Command(racebin, "racepass")
				cmd.Env = append(os.Environ(), "GORACE=halt_on_error=0 exitcode=0")
				var buf strings.Builder
				cmd.Stdout, cmd.Stderr = &buf, &buf
				if err := cmd.Start(); err != nil {
					return err.Error(), false
				}
				done := make(chan struct{})
				go func() { cmd.Wait(); close(done) }()
				select {
				case <-done:
					return buf.String(), false
				case <-time.After(8 * time.Minute):
					cmd.Process.Kill()
					<-done
					return buf.String(), true
				}
			}
			s, hung := runPass()
			if hung {
				s, hung = runPass()
				if hung {
					c.Violate("free-running-pass-hangs", "C16:free-running-hang", "the harness bodies on free-running goroutines (real sync package) did not finish within 8 minutes, twice (normal: seconds): a deadlock", map[string]interface{}{"output_tail": clipS(s, 1500)})
				}
			}
			nraces := strings.Count(s, "WARNING: DATA RACE")
			c.Note("free_running_race_detector_pass", map[string]interface{}{"ran": true, "data_race_reports": nraces, "summary": lastLine(s)})
			if nraces > 0 {
				// a race is a violation only if both accesses are in the library's own code
				blocks := strings.Split(s, "WARNING: DATA RACE")
				for _, b := range blocks[1:] {
					if strings.Count(b, "jsight-api-go-library/") >= 2 {
						c.Violate("data-race-free-running", "C16:race-detector:"+raceSite(b), "the Go race detector reports a data race between accesses in the library: "+clipS(b, 600), map[string]interface{}{"report": clipS(b, 3000)})
						break
					}
				}
			}
		} else {
			c.Note("free_running_race_detector_pass", map[string]interface{}{"ran": false, "reason": "race-instrumented binary not built"})
		}
	}
	_ = sort.Strings
}

func lastLine(s string) string {
	s = strings.TrimSpace(s)
	if i := strings.LastIndexByte(s, '\n'); i >= 0 {
		return s[i+1:]
	}
	return s
}

func raceSite(b string) string {
	for _, l := range strings.Split(b, "\n") {
		l = strings.TrimSpace(l)
		if strings.HasPrefix(l, "github.com/jsightapi/jsight-api-go-library/") {
			if i := strings.Index(l, "("); i > 0 {
				l = l[:i]
			}
			return strings.TrimPrefix(l, "github.com/jsightapi/jsight-api-go-library/")
		}
	}
	return "unknown"
}
