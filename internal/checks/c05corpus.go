//go:build verif

package checks

import (
	"fmt"
	"strings"

	"github.com/jsightapi/jsight-api-go-library/scanner"

	"verif/internal/doc"
	"verif/internal/fw"
)

func init() { corpusC05Hook = runC05Corpus }

// runC05Corpus applies every single rewrite of C05 to every fixture whose structure can be
// recovered (E-CORPUS-META): the text-level rewrites at every eligible line, quoting of every bare
// parameter, and explicit parentheses around the children of every implicitly nesting directive.
func runC05Corpus(c *fw.Ctx) {
	maxBytes := 6000
	if !c.Quick() {
		maxBytes = 17000
	}
	docs, skipped := corpusDocs(maxBytes)
	if c.Shard == 0 {
		c.Note("corpus_fixtures_used", len(docs))
		c.Note("corpus_fixtures_skipped", skipped)
	}
	for _, d := range docs {
		if c.Expired() {
			return
		}
		name := "fixture:" + d.name
		baseOut := run1(d.text)
		mlNote := d.hasMultiLineNote()
		for _, w := range doc.TextRewrites(d.r) {
			if w.Kind == "newline" && mlNote {
				c.Count("corpus_newline_skipped_multiline_note", 1) // its bytes are content (property text)
				continue
			}
			w := w
			c05Judge(c, name, d.r, baseOut, w, func() string { return doc.ApplyText(d.r, w) })
		}
		for _, q := range d.quoteRewrites() {
			q := q
			c05Judge(c, name, d.r, baseOut, q.w, func() string { return q.text })
		}
		for _, q := range d.parenRewrites() {
			q := q
			c05Judge(c, name, d.r, baseOut, q.w, func() string { return q.text })
		}
	}
}

type textRewrite struct {
	w    doc.Rewrite
	text string
}

// quoteRewrites puts each bare parameter that needs no quotes between double quotes.
func (d *cdoc) quoteRewrites() []textRewrite {
	var out []textRewrite
	ki := -1
	for _, l := range d.lex {
		if l.typ == scanner.Keyword {
			ki++
			continue
		}
		if l.typ != scanner.Parameter || ki < 0 {
			continue
		}
		p := d.text[l.begin : l.end+1]
		if !doc.NeedsNoQuotes(p) {
			continue
		}
		kw := d.r.Spans[ki].Node.Kw
		out = append(out, textRewrite{doc.Rewrite{Kind: "quote", Line: ki, Arg: kw + " " + p},
			d.text[:l.begin] + "\"" + p + "\"" + d.text[l.end+1:]})
	}
	return out
}

// parenRewrites writes the children of each implicitly nesting directive between parentheses.
func (d *cdoc) parenRewrites() []textRewrite {
	var out []textRewrite
	lines := splitKeep(d.r)
	var walk func(tt []*ctree)
	walk = func(tt []*ctree) {
		for _, t := range tt {
			walk(t.kids)
			if len(t.kids) == 0 || t.explicit {
				continue
			}
			pasteKid := false
			for _, k := range t.kids {
				if k.kw == "PASTE" {
					pasteKid = true
				}
			}
			if pasteKid {
				continue // what is pasted is resolved from here outwards: it need not nest here
			}
			open := d.kwLine[t.kids[0].first]
			closeAt := len(lines)
			if t.first+t.size < len(d.kwLine) {
				closeAt = d.kwLine[t.first+t.size]
			}
			// the closing parenthesis goes right after the last line that belongs to the subtree
			// (not after the comments that follow it), and never directly after free text
			last := closeAt - 1
			for last > open && d.r.Lines[last].Kind == doc.LTrivia {
				last--
			}
			if d.r.Lines[last].Kind == doc.LText {
				continue
			}
			var nl []string
			nl = append(nl, lines[:open]...)
			nl = append(nl, "(")
			nl = append(nl, lines[open:last+1]...)
			nl = append(nl, ")")
			nl = append(nl, lines[last+1:]...)
			out = append(out, textRewrite{doc.Rewrite{Kind: "paren", Line: t.first, Arg: t.kw}, strings.Join(nl, "\n") + "\n"})
		}
	}
	walk(d.forest)
	return out
}

var _ = fmt.Sprint

// hasMultiLineNote reports whether a body holds a /* */ note spanning several lines.
func (d *cdoc) hasMultiLineNote() bool {
	open := false
	for _, l := range d.r.Lines {
		if l.Kind != doc.LBody {
			open = false
			continue
		}
		t := d.text[l.Begin:l.End]
		if open {
			return true
		}
		if i := strings.LastIndex(t, "/*"); i >= 0 && !strings.Contains(t[i:], "*/") {
			open = true
		}
	}
	return false
}
