//go:build verif

package checks

import (
	"fmt"
	"sort"
	"strings"
	"time"

	"verif/internal/doc"
	"verif/internal/drv"
	"verif/internal/fw"
	"verif/internal/jsonx"

	"github.com/jsightapi/jsight-api-go-library/catalog"
)

func init() {
	fw.Register(&fw.Check{
		ID: "C19", Level: "model_checking",
		Rule: "(a) ALL first-segment strings of length 1..5 (quick) / 1..7 (thorough) over {_ % . space a 5 F é @ 2 0} through the automatic tag-name function: one pass builds name -> segment and requires injectivity (a for-all-pairs statement) and, end to end for length <= 3, that the interaction carries exactly that tag; (b) documents: URL block (implicit / parenthesised) with URL-level Tags in {none, one, two} x two methods each with own Tags in {none, one, two} x protocol {http, json-rpc} x a path-bearing method that follows (hoisted out of the implicit block) x tags declared before / after use, with / without annotation and description x undeclared tag; oracle: own Tags, else the enclosing URL's, else the single automatic tag; tag entries and interactions reference each other mutually; title = annotation or name; undeclared => rejected; non-trivial = every document / every string with an escaped character; distinct = distinct documents and strings ; E-REFCAT (see C04) over the fixtures, the pool selections and every document the generators of C04 and C13 build: tags of every interaction = own Tags, else the enclosing URL's, else the automatic tag; tag entries = declared + automatic, mutual membership, titles; undeclared tag => rejected ; the two methods of the block in every HTTP method kind (each kind once first with Tags as first child, once second with Tags as last child) ; a bare Description directly before each method's Tags (the free text ends where the Tags line starts)",
		Run:  runC19, QuickCap: 8 * time.Minute, ThoroughCap: 40 * time.Minute,
	})
}

func runC19(c *fw.Ctx) {
	c19Names(c)
	genC19(c)
	if refcatHook != nil {
		refcatHook(c, "C19")
		refcatCross(c, "C19", genC04, genC13)
	}
}

// c19Names: part (a), the automatic tag-name function.
func c19Names(c *fw.Ctx) {
	opt := drv.Options{FixedSeed: true}
	// (a) automatic names
	// the characters the name function treats specially, and the digits that let a written "_25" /
	// "_20" look like the escape of '%' / ' '
	alpha := []string{"_", "%", ".", " ", "a", "5", "F", "é", "@", "2", "0"}
	maxLen, e2eLen := 5, 3
	if !c.Quick() {
		maxLen, e2eLen = 7, 4
	}
	names := map[string]string{} // tag name -> title, for the names of this worker's hash class
	var rec func(prefix string, n int)
	rec = func(prefix string, n int) {
		if prefix != "" && prefix != "." {
			mine := c.Next()
			title := catalog.VerifPathTagTitle("/" + prefix + "/x")
			// reference for the title: first non-empty, non-"." segment
			wantTitle := "/" + prefix
			if title != wantTitle {
				if mine {
					c.Violate("tag-title", "C19:title", fmt.Sprintf("path /%s/x: automatic tag title %q, want %q", prefix, title, wantTitle), map[string]interface{}{"path": "/" + prefix + "/x"})
				}
			}
			name := catalog.VerifTagName(title)
			// every worker computes every name, but keeps (and judges) only the names of its own hash
			// class: two segments with one name meet in the same class, and the memory of the whole
			// set (2 * 10^7 names in the thorough tier) is divided among the workers
			if owner := int(fnvString(name) % uint64(c.Shards)); owner == c.Shard || c.Shards <= 1 {
				if prev, ok := names[name]; ok && prev != title {
					c.Violate("tag-name-collision", "C19:collision", fmt.Sprintf("first segments %q and %q get the same automatic tag name %q", prev, title, name), map[string]interface{}{"a": prev, "b": title})
				}
				names[name] = title
			}
			if mine {
				c.Count("evaluations", 1)
				c.Count("name_function_calls", 1)
				if strings.ContainsAny(prefix, "_% é@.") {
					c.Distinct("seg:" + prefix)
				}
				if len([]rune(prefix)) <= e2eLen {
					text := "JSIGHT 0.3\nGET \"/" + prefix + "/x\"\n  200 any\nPOST \"/" + prefix + "\"\n  200 any\n"
					o := drv.RunMem("root.jst", text, opt)
					if o.OK() {
						cat, _, _ := jsonx.Parse([]byte(o.JSON))
						in := cat.Get("interactions")
						tg := cat.Get("tags")
						ok := in != nil && len(in.Vals) == 2 && tg != nil && len(tg.Keys) == 1 && tg.Keys[0] == name
						if ok {
							for _, iv := range in.Vals {
								t := iv.Get("tags")
								if t == nil || len(t.A) != 1 || t.A[0].S != name {
									ok = false
								}
							}
						}
						if !ok {
							c.Violate("auto-tag-e2e", "C19:auto-e2e", fmt.Sprintf("paths /%s/x and /%s: expected both under the single automatic tag %q; catalog tags %v", prefix, prefix, name, tg.Keys), map[string]interface{}{"text": text})
						}
					} else if !o.Crashed() {
						c.Count("e2e_rejected_path", 1)
					}
				}
			}
		}
		if n == 0 {
			return
		}
		for _, a := range alpha {
			rec(prefix+a, n-1)
		}
	}
	rec("", maxLen)
	// the special title "/" (no usable segment) must not collide either
	if n := catalog.VerifTagName("/"); names[n] != "" && names[n] != "/" {
		c.Violate("tag-name-collision", "C19:collision-root", fmt.Sprintf("the root tag name %q collides with segment %q", n, names[n]), nil)
	}

}

// genC19 is the document generator of C19 with its own judgement (or the tap's).
func genC19(c *fw.Ctx) {
	opt := drv.Options{FixedSeed: true}
	// (b) documents
	// every list of 0..3 names over the two declared tags, repetitions included (quick: the URL level
	// takes the lists of length <= 2)
	tagSets := [][]string{nil}
	maxList := 3
	if !c.Quick() {
		maxList = 4
	}
	for l := 1; l <= maxList; l++ {
		for code := 0; code < 1<<l; code++ {
			var t []string
			for i := 0; i < l; i++ {
				t = append(t, []string{"@g", "@k"}[(code>>i)&1])
			}
			tagSets = append(tagSets, t)
		}
	}
	urlSets := tagSets[:7]
	if !c.Quick() {
		urlSets = tagSets
	}
	// every HTTP method kind carries Tags: each kind once as the first method (Tags as its first
	// child) and once as the second (Tags as its last child)
	kinds := []string{"GET", "POST", "PUT", "PATCH", "DELETE"}
	for _, protoK := range []string{"http0", "http1", "http2", "http3", "http4", "rpc"} {
		proto, kindA, kindB := "rpc", "GET", "POST"
		if strings.HasPrefix(protoK, "http") {
			proto = "http"
			k := int(protoK[4] - '0')
			kindA, kindB = kinds[k], kinds[(k+1)%5]
		}
		// two further kinds for the methods written outside the block on the block's own path
		kindH, kindT := kinds[0], kinds[1]
		if proto == "http" {
			k := int(protoK[4] - '0')
			kindH, kindT = kinds[(k+2)%5], kinds[(k+3)%5]
		} else {
			kindH, kindT = "DELETE", "PATCH"
		}
		for _, paren := range []bool{false, true} {
			for ui, urlTags := range urlSets {
				for m1, t1 := range tagSets {
					if c.Expired() {
						return
					}
					for m2, t2 := range tagSets {
						for _, hoistKind := range []int{0, 1, 2} { // 0 none, 1 a method with another path, 2 a method with the URL's own path
							hoist := hoistKind != 0
							for _, declAfter := range []bool{false, true} {
								for _, undeclName := range []string{"@undeclared", "@top", "@first"} {
									for undeclaredAt := 0; undeclaredAt <= 4; undeclaredAt++ {
										// the name that no TAG declares: a name nobody knows, or the automatic tag of
										// another interaction of the document (written later / earlier than the use)
										if undeclaredAt == 0 && undeclName != "@undeclared" {
											continue
										}
										undeclared := undeclaredAt != 0
										if hoist && (paren || proto == "rpc") {
											continue
										}
										t1, t2, urlTags := t1, t2, urlTags
										switch undeclaredAt {
										case 2: // after the names of the first method's list
											if t1 == nil {
												continue
											}
											t1 = append(append([]string{}, t1...), undeclName)
										case 3: // before the names of the second method's list
											if t2 == nil {
												continue
											}
											t2 = append([]string{undeclName}, t2...)
										case 4: // in the middle of a URL-level list that some method falls back to
											if len(urlTags) < 2 || (t1 != nil && t2 != nil) {
												continue
											}
											urlTags = append([]string{urlTags[0], undeclName}, urlTags[1:]...)
										}
										for descVar := 0; descVar <= 1; descVar++ {
											// descVar 1: a bare Description directly before each method's Tags (the free
											// text must end where the Tags line starts)
											if descVar == 1 && (hoist || declAfter || (t1 == nil && t2 == nil)) {
												continue
											}
											if !c.Next() {
												continue
											}
											c.Count("evaluations", 1)
											n := doc.N
											url := n("URL", "/u/{id}")
											url.Paren = paren
											var exp []expI
											pick := func(own []string, auto string) []string {
												if own != nil {
													return own
												}
												if urlTags != nil {
													return urlTags
												}
												return []string{auto}
											}
											if urlTags != nil {
												url.Kids = append(url.Kids, n("Tags", urlTags...))
											}
											if proto == "http" {
												a := n(kindA).WithKids(n("200", "any"))
												b := n(kindB).WithKids(n("201", "empty"))
												if t1 != nil {
													a.Kids = append([]*doc.Node{n("Tags", t1...)}, a.Kids...)
													if descVar == 1 {
														a.Kids = append([]*doc.Node{n("Description").WithBody("about a")}, a.Kids...)
													}
												}
												if t2 != nil {
													if descVar == 1 {
														b.Kids = append(b.Kids, n("Description").WithBody("about b\n  more"))
													}
													b.Kids = append(b.Kids, n("Tags", t2...))
												}
												url.Kids = append(url.Kids, a, b)
												exp = append(exp, expI{"http " + kindA + " /u/{id}", pick(t1, "@u")}, expI{"http " + kindB + " /u/{id}", pick(t2, "@u")})
											} else {
												a := n("Method", "ma")
												b := n("Method", "mb").WithKids(n("Params").WithBody("{}"))
												if t1 != nil {
													if descVar == 1 {
														a.Kids = append(a.Kids, n("Description").WithBody("about ma"))
													}
													a.Kids = append(a.Kids, n("Tags", t1...))
												}
												if t2 != nil {
													b.Kids = append([]*doc.Node{n("Tags", t2...)}, b.Kids...)
													if descVar == 1 {
														b.Kids = append([]*doc.Node{n("Description").WithBody("about mb")}, b.Kids...)
													}
												}
												url.Kids = append(url.Kids, n("Protocol", "json-rpc-2.0"), a, b)
												exp = append(exp, expI{"json-rpc-2.0 ma /u/{id}", pick(t1, "@u")}, expI{"json-rpc-2.0 mb /u/{id}", pick(t2, "@u")})
											}
											nodes := []*doc.Node{doc.Jsight()}
											if undeclared && undeclName == "@first" {
												nodes = append(nodes, n("GET", "/first").WithParen().WithKids(n("200", "any")))
											}
											// the annotation of a declared tag is free text: ordinary, looking like the title of
											// an automatic tag ("/..."), looking like a tag name
											gTitle := []string{"Group G", "/g looks like a path", "@k"}[(m1+m2+ui)%3]
											decl := []*doc.Node{n("TAG", "@g").WithAnn(gTitle), n("TAG", "@k").WithKids(n("Description").WithBody("about k"))}
											// a declared tag that has the automatic name of the URL's first segment: the
											// tagless interactions on that path belong to it, and it keeps its title
											declU := !undeclared && (m1+m2+ui)%2 == 1
											if declU {
												decl = append(decl, n("TAG", "@u").WithAnn("U group"))
											}
											if !declAfter {
												nodes = append(nodes, decl...)
											}
											nodes = append(nodes, url)
											if hoist {
												// a path-bearing method right after the implicit URL block is a top-level interaction
												h := n("DELETE", "/other/x").WithKids(n("204", "empty"))
												want := expI{"http DELETE /other/x", []string{"@other"}}
												if hoistKind == 2 {
													// the same path as the block it leaves: not enclosed by the URL, so the automatic tag
													h = n(kindH, "/u/{id}").WithKids(n("204", "empty"))
													want = expI{"http " + kindH + " /u/{id}", []string{"@u"}}
												}
												url.Kids = append(url.Kids, h)
												exp = append(exp, want)
											}
											if proto == "http" && m2%2 == 0 {
												// a top-level method on the URL's path, written after the block
												exp = append(exp, expI{"http " + kindT + " /u/{id}", []string{"@u"}})
											}
											top := n("PUT", "/top").WithKids(n("200", "any"))
											if m1%3 == 1 {
												top.Kids = append(top.Kids, n("Tags", "@k"))
												exp = append(exp, expI{"http PUT /top", []string{"@k"}})
											} else {
												exp = append(exp, expI{"http PUT /top", []string{"@top"}})
											}
											if proto == "http" && m2%2 == 0 {
												nodes = append(nodes, n(kindT, "/u/{id}").WithParen().WithKids(n("200", "any")))
											}
											nodes = append(nodes, top)
											if undeclaredAt == 1 {
												bad := n("PATCH", "/bad").WithKids(n("Tags", undeclName), n("200", "any"))
												nodes = append(nodes, bad)
											}
											if declAfter {
												nodes = append(nodes, decl...)
											}
											text := doc.Text(nodes)
											label := fmt.Sprintf("proto=%s kinds=%s,%s desc=%d paren=%v url=%d m1=%d m2=%d hoist=%d after=%v declU=%v undeclared=%d", proto, kindA, kindB, descVar, paren, ui, m1, m2, hoistKind, declAfter, declU, undeclaredAt)
											if undeclared {
												label += " name=" + undeclName
											}
											c.Describe(label)
											c.Distinct(text)
											o := drv.RunMem("root.jst", text, opt)
											if docTap != nil {
												docTap(label, text, o)
												continue
											}
											if o.Crashed() {
												c.Count("skipped_crash", 1)
												continue
											}
											if undeclared {
												if !o.Rejected() {
													c.Violate("undeclared-tag-accepted", "C19:undeclared", label+": a Tags directive naming an undeclared tag is "+o.Short(), map[string]interface{}{"text": text})
												}
												continue
											}
											if !o.OK() {
												// the annotation of a declared tag is its title and nothing else: the same
												// document with the ordinary annotation accepted => this one accepted
												if gTitle != "Group G" {
													plain := strings.Replace(text, "TAG @g // "+gTitle, "TAG @g // Group G", 1)
													if plain != text && drv.RunMem("root.jst", plain, opt).OK() {
														c.Violate("annotation-changes-verdict", "C19:tag-annotation-verdict", fmt.Sprintf("%s: with the annotation %q on TAG @g the document is %s, with \"Group G\" it is accepted", label, gTitle, o.Short()), map[string]interface{}{"text": text})
														continue
													}
												}
												// the property speaks about the tags of interactions of accepted documents; a
												// rejection (e.g. URL-level Tags next to Protocol) is not judged, only counted
												c.Count("documents_rejected_not_judged", 1)
												c.Sample("rejected (not judged)", 1, map[string]interface{}{"label": label, "diagnostic": o.Short()})
												continue
											}
											c.Count("documents_accepted_and_compared", 1)
											titles := map[string]string{"@g": gTitle, "@k": "@k"}
											if declU {
												titles["@u"] = "U group"
											}
											if bad := checkTags(o.JSON, exp, titles); bad != "" {
												c.Violate("tags-wrong", "C19:tags:"+firstWordsN(bad, 2), label+": "+bad, map[string]interface{}{"text": text})
											} else {
												c.Sample("tags "+proto, 2, map[string]interface{}{"label": label, "text": text})
											}
										}
									}
								}
							}
						}
					}
				}
			}
		}
	}
}

// checkTags compares the catalog with the expected tags of every interaction.
type expI struct {
	id   string
	tags []string
}

func checkTags(js string, exp []expI, titles map[string]string) string {
	cat, dups, err := jsonx.Parse([]byte(js))
	if err != nil || len(dups) > 0 {
		return fmt.Sprintf("unreadable catalog: %v %v", err, dups)
	}
	in := cat.Get("interactions")
	if in == nil || len(in.Keys) != len(exp) {
		return fmt.Sprintf("interaction-count: expected %d interactions, catalog has %v", len(exp), in.Keys)
	}
	wantTagMembers := map[string][]string{}
	for i, e := range exp {
		if in.Keys[i] != e.id {
			return fmt.Sprintf("interaction-order: position %d is %q, expected %q", i, in.Keys[i], e.id)
		}
		t := in.Vals[i].Get("tags")
		var got []string
		if t != nil {
			for _, x := range t.A {
				got = append(got, x.S)
			}
		}
		// a name written twice in one Tags list: the property says "exactly those tags"; whether the
		// repetition is kept is not judged, dropping or adding a name is
		if strings.Join(dedupStrings(got), ",") != strings.Join(dedupStrings(e.tags), ",") {
			return fmt.Sprintf("interaction-tags: %q carries %v, expected %v", e.id, got, e.tags)
		}
		if len(got) == 0 {
			return fmt.Sprintf("no-tag: %q carries no tag", e.id)
		}
		for _, g := range dedupStrings(e.tags) {
			wantTagMembers[g] = append(wantTagMembers[g], e.id)
		}
	}
	tags := cat.Get("tags")
	for name, members := range wantTagMembers {
		te := tags.Get(name)
		if te == nil {
			return fmt.Sprintf("tag-missing: tag %q is carried by %v but has no entry", name, members)
		}
		var got []string
		if g := te.Get("interactionGroups"); g != nil {
			for _, grp := range g.A {
				for _, x := range grp.Get("interactions").A {
					got = append(got, x.S)
				}
			}
		}
		a, b := dedupStrings(got), append([]string{}, members...)
		sort.Strings(a)
		sort.Strings(b)
		if strings.Join(a, "|") != strings.Join(b, "|") {
			return fmt.Sprintf("tag-members: tag %q lists %v, its interactions are %v", name, got, members)
		}
		if te.Get("name").Str() != name {
			return fmt.Sprintf("tag-name: entry %q has name %q", name, te.Get("name").Str())
		}
		if want, ok := titles[name]; ok && te.Get("title").Str() != want {
			return fmt.Sprintf("tag-title: declared tag %q has title %q, expected %q", name, te.Get("title").Str(), want)
		}
	}
	// no tag entry lists an interaction that does not carry it
	for i, name := range tags.Keys {
		if g := tags.Vals[i].Get("interactionGroups"); g != nil {
			for _, grp := range g.A {
				for _, x := range grp.Get("interactions").A {
					found := false
					for _, m := range wantTagMembers[name] {
						if m == x.S {
							found = true
						}
					}
					if !found {
						return fmt.Sprintf("tag-extra-member: tag %q lists %q which does not carry it", name, x.S)
					}
				}
			}
		}
	}
	return ""
}

func dedupStrings(in []string) []string {
	seen := map[string]bool{}
	var out []string
	for _, x := range in {
		if !seen[x] {
			seen[x] = true
			out = append(out, x)
		}
	}
	return out
}

func fnvString(s string) uint64 {
	h := uint64(14695981039346656037)
	for i := 0; i < len(s); i++ {
		h ^= uint64(s[i])
		h *= 1099511628211
	}
	return h
}
