package checks

import (
	"encoding/json"
	"fmt"
	"os"
	"path/filepath"
	"sort"
	"strings"

	"verif/internal/drv"
	"verif/internal/fw"
)

// Generic re-execution of a stored witness without any explorer: every document text and every
// project found in the witness is run through the public API again and its outcome printed, so a
// reader can see the two sides of a metamorphic violation, or the crash, on the current tree.
func init() {
	fw.GenericReplay = func(raw json.RawMessage) string {
		var w map[string]interface{}
		if json.Unmarshal(raw, &w) != nil {
			return "(witness is not an object)"
		}
		var b strings.Builder
		var keys []string
		for k := range w {
			keys = append(keys, k)
		}
		sort.Strings(keys)
		opt := drv.Options{FixedSeed: true}
		for _, k := range keys {
			switch v := w[k].(type) {
			case string:
				if k == "stack" || k == "stderr_head" || k == "report" || k == "lexemes" || k == "case" {
					continue
				}
				if !strings.Contains(v, "\n") && !strings.HasSuffix(k, "text") && k != "input" {
					continue
				}
				o := drv.RunMemFull("root.jst", v, opt)
				fmt.Fprintf(&b, "replay %-18s -> %s\n", k, o.Short())
			case map[string]interface{}:
				files, ok := v["files"].(map[string]interface{})
				if !ok {
					continue
				}
				p := drv.Project{Root: "root.jst", Files: map[string]string{}}
				if r, ok := v["root"].(string); ok {
					p.Root = r
				}
				for fn, c := range files {
					if s, ok := c.(string); ok {
						p.Files[fn] = s
					}
				}
				if dd, ok := v["dirs"].([]interface{}); ok {
					for _, d := range dd {
						if s, ok := d.(string); ok {
							p.Dirs = append(p.Dirs, s)
						}
					}
				}
				dir := drv.NewDir(fw.Scratch("replay"))
				o, _ := dir.Run(p, opt, true)
				dir.Close()
				os.RemoveAll(filepath.Dir(dir.Path))
				fmt.Fprintf(&b, "replay %-18s -> %s\n", k+" (project)", o.Short())
			}
		}
		if b.Len() == 0 {
			return "(no document in this witness can be re-executed generically)"
		}
		return strings.TrimRight(b.String(), "\n")
	}
}
