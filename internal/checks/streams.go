//go:build verif

package checks

import (
	"bufio"
	"fmt"
	"os"
	"path/filepath"
	"sort"
	"strings"

	"verif/internal/doc"
	"verif/internal/drv"
	"verif/internal/escan"
	"verif/internal/fw"
)

// A stream case: a project run with options. Streams are deterministic enumerations shared (as
// code, never as results) by the aggregating checks C01, C02, C09 and C03.
type streamCase struct {
	stream string
	label  string
	proj   drv.Project
	// mem: run in memory under this file name (INCLUDE then resolves on disk relative to it)
	memName string
	opt     drv.Options
}

func repoDir() string {
	if d := os.Getenv("VERIF_REPO"); d != "" {
		return d
	}
	return "/repo"
}

// prepareStreams is the parent-side step: it explores the scanner state graph and the
// context-resolution state graph once and leaves the representatives for the workers.
func prepareStreams(tier, dir string) error {
	alpha := escan.Alphabet(false)
	g, _ := escan.Explore(alpha, nil, 400000, nil)
	f, err := os.Create(filepath.Join(dir, "prep-scan-reps"))
	if err != nil {
		return err
	}
	w := bufio.NewWriter(f)
	for _, r := range g.Rep {
		fmt.Fprintf(w, "%q\n", r)
	}
	w.Flush()
	f.Close()
	// context states: BFS over the reference resolver only
	al := ctxAlphabet()
	index := map[string]bool{(&rstate{}).key(al): true}
	frontier := [][]int{nil}
	f2, err := os.Create(filepath.Join(dir, "prep-ctx-reps"))
	if err != nil {
		return err
	}
	w2 := bufio.NewWriter(f2)
	for len(frontier) > 0 {
		var next [][]int
		for _, base := range frontier {
			bs := refRun(al, base)
			for t := range al {
				if al[t].name == "(" && (bs.pending == nil || bs.pending.explicit) {
					continue
				}
				seq := append(append([]int{}, base...), t)
				rs := refRun(al, seq)
				if rs.rejected != "" {
					continue
				}
				k := rs.key(al)
				if !index[k] {
					index[k] = true
					next = append(next, seq)
					text, _ := renderSeq(al, seq)
					fmt.Fprintf(w2, "%q\n", text)
				}
			}
		}
		frontier = next
	}
	w2.Flush()
	f2.Close()
	return nil
}

func readQuoted(path string) []string {
	f, err := os.Open(path)
	if err != nil {
		return nil
	}
	defer f.Close()
	var out []string
	sc := bufio.NewScanner(f)
	sc.Buffer(make([]byte, 1<<20), 1<<24)
	for sc.Scan() {
		var s string
		if _, err := fmt.Sscanf(sc.Text(), "%q", &s); err == nil {
			out = append(out, s)
		}
	}
	return out
}

// fixtures lists the .jst files of the repository's corpus.
func fixtures() []string {
	var out []string
	filepath.Walk(filepath.Join(repoDir(), "testdata"), func(p string, info os.FileInfo, err error) error {
		if err == nil && !info.IsDir() && strings.HasSuffix(p, ".jst") {
			out = append(out, p)
		}
		return nil
	})
	sort.Strings(out)
	return out
}

// directive variants for the post-scan stream: kind x {parameter absent / valid / wrong} x {body absent / valid / wrong notation}.
func directiveVariants(reduced bool) []string {
	type kv struct {
		kw     string
		params []string // alternatives ("" = none)
		bodies []string // alternatives ("" = none)
	}
	kinds := []kv{
		{"INFO", []string{"", "x"}, []string{""}},
		{"Title", []string{"", "\"T\""}, []string{""}},
		{"Version", []string{"", "1"}, []string{""}},
		{"Description", []string{""}, []string{"", "text", "(\n  t\n)"}},
		{"SERVER", []string{"", "@s", "plain"}, []string{""}},
		{"BaseUrl", []string{"", "\"http://x\""}, []string{""}},
		{"TYPE", []string{"", "@t", "@t regex", "@t any", "regex", "[@t]"}, []string{"", "{}", "/a/", "@t", "{\"a\": @zz}"}},
		{"ENUM", []string{"", "@e"}, []string{"", "[1]", "[]"}},
		{"URL", []string{"", "/u", "u", "/u/{id}", "/u/{}"}, []string{""}},
		{"GET", []string{"", "/g", "g"}, []string{""}},
		{"POST", []string{"", "/g/{id}/{id}"}, []string{""}},
		{"Path", []string{"", "x"}, []string{"", "{\"id\": 1}", "@t", "{}"}},
		{"Query", []string{"", "\"q=1\"", "noFormat"}, []string{"", "{\"q\": 1}", "@t"}},
		{"Request", []string{"", "@t", "regex", "any", "@t regex", "[@t]"}, []string{"", "{}", "/a/"}},
		{"200", []string{"", "@t", "regex", "empty", "@t any"}, []string{"", "{}", "/a/"}},
		{"Headers", []string{"", "x"}, []string{"", "{\"H\": \"v\"}", "@t", "1"}},
		{"Body", []string{"", "@t", "regex", "any"}, []string{"", "[1]", "/a/"}},
		{"Protocol", []string{"", "json-rpc-2.0", "x"}, []string{""}},
		{"Method", []string{"", "m"}, []string{""}},
		{"Params", []string{""}, []string{"", "{}", "@t"}},
		{"Result", []string{""}, []string{"", "[@t]"}},
		{"TAG", []string{"", "@g"}, []string{""}},
		{"Tags", []string{"", "@g", "@g @h", "g"}, []string{""}},
		{"MACRO", []string{"", "@m"}, []string{""}},
		{"PASTE", []string{"", "@m", "@nope"}, []string{""}},
		{"(", []string{""}, []string{""}},
		{")", []string{""}, []string{""}},
	}
	var out []string
	for _, k := range kinds {
		for pi, p := range k.params {
			for bi, b := range k.bodies {
				if reduced && (pi > 1 || bi > 1) {
					continue
				}
				s := k.kw
				if p != "" {
					s += " " + p
				}
				if b != "" {
					s += "\n" + b
				}
				out = append(out, s)
			}
		}
	}
	return out
}

// eachCase enumerates every stream case. which selects streams by name (nil = all).
func eachCase(c *fw.Ctx, which map[string]bool, f func(sc streamCase)) {
	on := func(s string) bool { return which == nil || which[s] }
	fixed := drv.Options{FixedSeed: true}
	emit := func(sc streamCase) {
		if c.Expired() {
			return
		}
		if !c.Next() {
			return
		}
		c.Describe(sc.stream + " " + sc.label)
		f(sc)
	}
	single := func(stream, label, text string) {
		emit(streamCase{stream: stream, label: label, proj: drv.Single(text), opt: fixed})
	}

	// pool documents
	if on("pool") {
		docSets(!c.Quick(), func(name string, blocks []doc.Block) {
			single("pool", name, doc.Text(doc.Assemble(blocks)))
			// the same declarations in other orders (use before declaration): reversed, and every rotation
			n := len(blocks)
			if n < 2 {
				return
			}
			rev := make([]doc.Block, n)
			for i, b := range blocks {
				rev[n-1-i] = b
			}
			single("pool", name+" reversed", doc.Text(doc.Assemble(rev)))
			for r := 1; r < n && n > 2; r++ {
				rot := append(append([]doc.Block{}, blocks[r:]...), blocks[:r]...)
				single("pool", fmt.Sprintf("%s rotated %d", name, r), doc.Text(doc.Assemble(rot)))
			}
		})
	}
	// the corpus and its complete one-line-edit neighbourhood
	if on("corpus") {
		for _, fx := range fixtures() {
			b, err := os.ReadFile(fx)
			if err != nil {
				continue
			}
			text := string(b)
			rel := strings.TrimPrefix(fx, repoDir()+"/")
			emit(streamCase{stream: "corpus", label: rel, proj: drv.Single(text), memName: fx, opt: fixed})
			lines := strings.SplitAfter(text, "\n")
			if len(lines) > 400 {
				continue
			}
			for i := range lines {
				del := strings.Join(append(append([]string{}, lines[:i]...), lines[i+1:]...), "")
				emit(streamCase{stream: "corpus-edit", label: fmt.Sprintf("%s delete line %d", rel, i+1), proj: drv.Single(del), memName: fx, opt: fixed})
				dup := strings.Join(append(append(append([]string{}, lines[:i+1]...), lines[i]), lines[i+1:]...), "")
				emit(streamCase{stream: "corpus-edit", label: fmt.Sprintf("%s duplicate line %d", rel, i+1), proj: drv.Single(dup), memName: fx, opt: fixed})
				if i+1 < len(lines) {
					sw := append([]string{}, lines...)
					sw[i], sw[i+1] = sw[i+1], sw[i]
					emit(streamCase{stream: "corpus-edit", label: fmt.Sprintf("%s swap lines %d,%d", rel, i+1, i+2), proj: drv.Single(strings.Join(sw, "")), memName: fx, opt: fixed})
				}
				if !c.Quick() {
					tr := strings.Join(lines[:i], "") + strings.TrimRight(lines[i], "\r\n")
					emit(streamCase{stream: "corpus-edit", label: fmt.Sprintf("%s truncate after line %d", rel, i+1), proj: drv.Single(tr), memName: fx, opt: fixed})
				}
			}
		}
	}
	// every scanner state's representative x every token, through the whole pipeline
	if on("scan") {
		reps := readQuoted(filepath.Join(fw.PrepDir(), "prep-scan-reps"))
		alpha := escan.Alphabet(false)
		for i, r := range reps {
			for t, tok := range alpha {
				// the quick tier takes every token from every state, too: it is the product that matters
				_ = t
				single("scan", fmt.Sprintf("state %d + %q", i, tok), r+tok)
			}
			if !c.Quick() {
				for _, tok := range alpha {
					single("scan-jsight", fmt.Sprintf("JSIGHT + state %d + %q", i, tok), "JSIGHT 0.3\n"+r+tok)
				}
			}
		}
	}
	// every context-resolution state's representative sequence through the whole pipeline
	if on("ctx") {
		for i, t := range readQuoted(filepath.Join(fw.PrepDir(), "prep-ctx-reps")) {
			single("ctx", fmt.Sprintf("state %d", i), t)
		}
	}
	// post-scan phases: all sequences of <= 2 (quick) / 3 (thorough, reduced alphabet for the third) directive variants after JSIGHT
	if on("variants") {
		vs := directiveVariants(false)
		for _, a := range vs {
			single("variants", "1", "JSIGHT 0.3\n"+a+"\n")
			single("variants", "1-nojsight", a+"\n")
			for _, b := range vs {
				single("variants", "2", "JSIGHT 0.3\n"+a+"\n"+b+"\n")
			}
		}
		if !c.Quick() {
			rs := directiveVariants(true)
			for _, a := range rs {
				for _, b := range rs {
					for _, d := range rs {
						single("variants", "3", "JSIGHT 0.3\n"+a+"\n"+b+"\n"+d+"\n")
					}
				}
			}
		}
	}
	// several simultaneous instances of one fault kind, or several entries in one internally hashed
	// collection (C03: which one is reported must not depend on map iteration order)
	if on("multi") {
		for _, m := range multiInstanceDocs() {
			single("multi", m[0], m[1])
		}
	}
	// faulty Path declarations (C13's negative variants): a fault is a diagnostic, never a crash
	if on("pathfaults") {
		for _, f := range c13FaultDocs() {
			single("pathfaults", f.label, f.text)
		}
	}
	// schema rules: every example value x every set of 1..2 (thorough 3) rules from an alphabet that
	// holds each rule the catalog builder reads (type, or, enum, allOf, additionalProperties) in every
	// form its value can take - valid, empty, of the wrong shape - plus the ordinary rules, in every
	// schema position (root of a type, property, array item, request / response body, query, path,
	// headers, JSON-RPC params). The schema library judges the rules; whatever it lets through
	// reaches the catalog builder.
	if on("schema-rules") {
		examples := []string{`""`, `"a"`, `1`, `1.5`, `true`, `null`, `{}`, `[]`, `@st`, `{"k": 1}`, `[1]`}
		rules := []string{
			`type: "string"`, `type: "integer"`, `type: "@st"`, `type: ""`, `type: "mixed"`, `type: "any"`, `type: "@"`,
			`or: ["string", "integer"]`, `or: ["@st", "string"]`, `or: [{type: "integer"}, {maxLength: 2}]`, `or: [{maxLength: 2}, {type: "@st"}]`,
			`or: [{min: 1}, "@st"]`, `or: [{}, {}]`, `or: []`, `or: ["", "string"]`, `or: "string"`,
			`enum: ["a", 1]`, `enum: @se`, `enum: []`, `enum: [""]`,
			`allOf: "@st"`, `allOf: ["@st", "@so"]`, `allOf: ""`, `allOf: []`, `allOf: [""]`,
			`additionalProperties: true`, `additionalProperties: "@st"`, `additionalProperties: "string"`, `additionalProperties: ""`, `additionalProperties: "any"`,
			`optional: true`, `nullable: true`, `const: true`, `min: 0`, `minLength: 0`, `regex: "a"`, `precision: 1`, `minItems: 0`, `exclusiveMinimum: true`, `serializeFormat: "x"`,
		}
		hosts := []func(v string) string{
			func(v string) string { return "TYPE @x\n  " + v + "\n" },
			func(v string) string { return "TYPE @x\n  {\n    \"p\": " + v + "\n  }\n" },
			func(v string) string { return "TYPE @x\n  [\n    " + v + "\n  ]\n" },
			func(v string) string { return "POST /h\n  Request\n    " + v + "\n  200\n    " + v + "\n" },
			func(v string) string { return "GET /h\n  Query\n    {\n      \"q\": " + v + "\n    }\n  200 any\n" },
			func(v string) string { return "GET /h/{p}\n  Path\n    {\n      \"p\": " + v + "\n    }\n  200 any\n" },
			func(v string) string {
				return "GET /h\n  200\n    Headers\n      {\n        \"H\": " + v + "\n      }\n    Body any\n"
			},
			func(v string) string {
				return "URL /r\n  Protocol json-rpc-2.0\n  Method m\n    Params\n      " + v + "\n    Result\n      {\n        \"r\": " + v + "\n      }\n"
			},
		}
		tail := "TYPE @st\n  {\"tk\": 1}\nTYPE @so\n  {\"ok\": 2}\nENUM @se\n  [\"a\", 1]\n"
		maxSet := 2
		if !c.Quick() {
			maxSet = 3
		}
		var set []int
		var rec func(from int)
		rec = func(from int) {
			if len(set) > 0 {
				var rr []string
				for _, i := range set {
					rr = append(rr, rules[i])
				}
				note := " // {" + strings.Join(rr, ", ") + "}"
				for ei, e := range examples {
					for hi, h := range hosts {
						single("schema-rules", fmt.Sprintf("host=%d example=%d rules=%v", hi, ei, set), "JSIGHT 0.3\n"+h(e+note)+tail)
					}
				}
			}
			if len(set) == maxSet {
				return
			}
			for i := from; i < len(rules); i++ {
				set = append(set, i)
				rec(i + 1)
				set = set[:len(set)-1]
			}
		}
		rec(0)
	}
	// zero bytes: the scanner's end-of-input sentinel is the zero byte, and parts of a file are
	// skipped by length (schema and enum bodies as the schema library delimits them). One document
	// with 17 places where a byte can stand; a zero byte at every subset of 1..3 places.
	if on("nul-places") {
		parts := []string{"JSIGHT 0.3\nINFO\n  Title \"T", "\"\n  Description\n    text ", "\n    more ", "\nTYPE @a // ann ", "\n  {\n    \"k\": 1 // note ", "\n  } # c ", "\n# line ", "\nENUM @e\n  [\n    1 // in ", "\n  ]\nGET /p", " // a ", "\n  Description\n  (\n    par ", "\n  )\n  200 any\n### block ", " ###\nTYPE @r regex\n  /x", "/\nURL /u # eol ", "\n  POST\n    Description\n      late ", "\n      text ", "\n    200 any\nGET /z\n  200 any\n  Description\n    last ", "\n"}
		if base := drv.RunMem("root.jst", strings.Join(parts, ""), fixed); !base.OK() && c.Shard == 0 {
			c.Note("harness_fault", "nul-places: the document without zero bytes is not accepted: "+base.Short())
			c.NotExhaustive("nul-places base document rejected")
		}
		n := len(parts) - 1
		maxK := 3
		var pick []int
		var rec func(from int)
		rec = func(from int) {
			if len(pick) > 0 {
				var b strings.Builder
				for i, p := range parts {
					b.WriteString(p)
					for _, k := range pick {
						if k == i {
							b.WriteByte(0)
						}
					}
				}
				single("nul-places", fmt.Sprint(pick), b.String())
				single("nul-places", fmt.Sprint(pick)+" crlf", strings.ReplaceAll(b.String(), "\n", "\r\n"))
			}
			if len(pick) == maxK {
				return
			}
			for i := from; i < n; i++ {
				pick = append(pick, i)
				rec(i + 1)
				pick = pick[:len(pick)-1]
			}
		}
		rec(0)
	}
	// paste graphs
	if on("paste") {
		maxN := 3
		if !c.Quick() {
			maxN = 4
		}
		for n := 1; n <= maxN; n++ {
			for mask := 0; mask < 1<<uint(n*n); mask++ {
				for _, used := range []int{0, 1, 2} {
					var b strings.Builder
					b.WriteString("JSIGHT 0.3\n")
					for i := 0; i < n; i++ {
						fmt.Fprintf(&b, "MACRO @g%d\n(\n", i)
						if mask&(1<<uint(i*n+i)) == 0 || i%2 == 0 {
							fmt.Fprintf(&b, "  %d any\n", 201+i)
						}
						for j := 0; j < n; j++ {
							if mask&(1<<uint(i*n+j)) != 0 {
								fmt.Fprintf(&b, "  PASTE @g%d\n", j)
							}
						}
						b.WriteString(")\n")
					}
					switch used {
					case 1:
						b.WriteString("GET /g\n  PASTE @g0\n")
					case 2:
						fmt.Fprintf(&b, "GET /g\n  PASTE @g%d\nPASTE @g0\n", n-1)
					}
					single("paste", fmt.Sprintf("n=%d mask=%d used=%d", n, mask, used), b.String())
				}
			}
		}
	}
	// include graphs and target states
	if on("include") {
		files := []string{"a.jst", "b.jst", "c.jst"}
		contents := []string{"", "TYPE @x any\n", "(\n", ")\n", "GET /i\n  200 any\n", "200 any\n", "JSIGHT 0.3\n", "INCLUDE", "INCLUDE \"a.jst\"\n", "\n\n", "TYPE @x\n"}
		places := []func(inc string) string{
			func(inc string) string { return "JSIGHT 0.3\n" + inc + "\n" },
			func(inc string) string { return inc },
			func(inc string) string { return "JSIGHT 0.3\nGET /x\n  200 any\n  " + inc + "\nTYPE @y any\n" },
			func(inc string) string { return "JSIGHT 0.3\nGET /x\n(\n  " + inc + "\n)\n" },
			func(inc string) string { return "JSIGHT 0.3\nMACRO @m\n(\n  " + inc + "\n)\nPASTE @m\n" },
			func(inc string) string { return "JSIGHT 0.3\nTYPE @t\n  " + inc + "\n" },
		}
		junk := []string{"", " extra", " // note", " # c", " \"q\"", "\t"}
		for pi, pl := range places {
			for _, jk := range junk {
				// the target's state
				for _, st := range []string{"content", "missing", "directory", "self"} {
					for ci, content := range contents {
						if st != "content" && ci > 0 {
							continue
						}
						p := drv.Project{Root: "root.jst", Files: map[string]string{}}
						target := "a.jst"
						switch st {
						case "content":
							p.Files["a.jst"] = content
						case "directory":
							p.Dirs = []string{"a.jst"}
						case "self":
							target = "root.jst"
						}
						p.Files["root.jst"] = pl("INCLUDE " + target + jk)
						emit(streamCase{stream: "include", label: fmt.Sprintf("place=%d junk=%q state=%s content=%d", pi, jk, st, ci), proj: p, opt: fixed})
					}
				}
			}
			// graphs over three files: every subset of the 9 include edges among a, b, c
			if pi < 3 {
				for mask := 0; mask < 1<<9; mask++ {
					if c.Quick() && mask%3 != 0 && pi > 0 {
						continue
					}
					p := drv.Project{Root: "root.jst", Files: map[string]string{"root.jst": pl("INCLUDE a.jst")}}
					for i, fn := range files {
						var b strings.Builder
						fmt.Fprintf(&b, "TYPE @in%d any\n", i)
						for j, tn := range files {
							if mask&(1<<uint(i*3+j)) != 0 {
								b.WriteString("INCLUDE " + tn + "\n")
							}
						}
						p.Files[fn] = b.String()
					}
					emit(streamCase{stream: "include-graph", label: fmt.Sprintf("place=%d mask=%d", pi, mask), proj: p, opt: fixed})
				}
			}
		}
	}
	// the same junk after the file name of an INCLUDE that stands in an included file (depth 2, 3)
	if on("include") {
		for _, jk := range []string{" extra", " // note", " /* n */", " # c", " \"q\"", "\t", " x y"} {
			for depth := 2; depth <= 3; depth++ {
				files := map[string]string{"root.jst": "JSIGHT 0.3\nINCLUDE f1.jst\nTYPE @r any\n"}
				for d := 1; d < depth; d++ {
					line := fmt.Sprintf("INCLUDE f%d.jst", d+1)
					if d == depth-1 {
						line += jk
					}
					files[fmt.Sprintf("f%d.jst", d)] = fmt.Sprintf("TYPE @t%d any\n%s\nTYPE @u%d any\n", d, line, d)
				}
				files[fmt.Sprintf("f%d.jst", depth)] = "TYPE @leaf any\n"
				emit(streamCase{stream: "include", label: fmt.Sprintf("deep junk=%q depth=%d", jk, depth), proj: drv.Project{Root: "root.jst", Files: files}, opt: fixed})
			}
		}
	}
	// option sets over pool documents
	if on("options") {
		docSets(false, func(name string, blocks []doc.Block) {
			if len(blocks) > 2 {
				return
			}
			text := doc.Text(doc.Assemble(blocks))
			for _, k := range allKinds {
				emit(streamCase{stream: "options", label: name + " ban=" + k, proj: drv.Single(text), opt: drv.Options{FixedSeed: true, Banned: []string{k}}})
			}
			emit(streamCase{stream: "options", label: name + " ban=all", proj: drv.Single(text), opt: drv.Options{Banned: allKinds}})
			emit(streamCase{stream: "options", label: name + " no-fixed-seed", proj: drv.Single(text), opt: drv.Options{}})
		})
	}
	// names, paths and method names over a stress alphabet, in every name-bearing position
	if on("names") {
		alpha := []string{" ", "\"", "\\", "/", "é", "\xff", "a", "{", "}", "@", "#"}
		maxLen := 2
		if !c.Quick() {
			maxLen = 3
		}
		var rec func(prefix string, n int)
		rec = func(prefix string, n int) {
			if prefix != "" {
				q := "\"" + strings.NewReplacer("\\", "\\\\", "\"", "\\\"").Replace(prefix) + "\""
				qp := "\"/" + strings.NewReplacer("\\", "\\\\", "\"", "\\\"").Replace(prefix) + "\""
				single("names", "title", "JSIGHT 0.3\nINFO\n  Title "+q+"\n")
				single("names", "path", "JSIGHT 0.3\nGET "+qp+"\n  200 any\n")
				single("names", "path-bare", "JSIGHT 0.3\nGET /"+prefix+"\n  200 any\n")
				single("names", "two-paths", "JSIGHT 0.3\nGET "+qp+"\n  200 any\nGET "+"\"/"+strings.NewReplacer("\\", "\\\\", "\"", "\\\"").Replace(prefix)+"/\""+"\n  200 any\n")
				single("names", "url", "JSIGHT 0.3\nURL "+qp+"\n  GET\n    200 any\n  POST\n    200 any\n")
				single("names", "rpc-method", "JSIGHT 0.3\nURL /r\n  Protocol json-rpc-2.0\n  Method "+q+"\n  Method other\n")
				single("names", "rpc-two", "JSIGHT 0.3\nURL /r\n  Protocol json-rpc-2.0\n  Method "+q+"\nURL "+qp+"\n  Protocol json-rpc-2.0\n  Method m\n")
				single("names", "baseurl", "JSIGHT 0.3\nSERVER @s\n  BaseUrl "+q+"\n")
				single("names", "type-name", "JSIGHT 0.3\nTYPE @"+prefix+"\n  {}\n")
				single("names", "tag-name", "JSIGHT 0.3\nTAG @"+prefix+"\nGET /x\n  Tags @"+prefix+"\n  200 any\n")
				single("names", "query-example", "JSIGHT 0.3\nGET /x\n  Query "+q+"\n    {}\n  200 any\n")
				single("names", "annotation", "JSIGHT 0.3\nGET /x // "+prefix+"\n  200 any // "+prefix+"\n")
				single("names", "description", "JSIGHT 0.3\nGET /x\n  Description\n    "+prefix+"\n  200 any\n")
				single("names", "schema-key", "JSIGHT 0.3\nTYPE @t\n  {"+q+": 1}\n")
			}
			if n == 0 {
				return
			}
			for _, a := range alpha {
				rec(prefix+a, n-1)
			}
		}
		rec("", maxLen)
		// the INCLUDE parameter over the same alphabet, bare and quoted, and the EMPTY quoted string in
		// every parameter position of every directive kind
		var recI func(prefix string, n int)
		recI = func(prefix string, n int) {
			if prefix != "" {
				q := "\"" + strings.NewReplacer("\\", "\\\\", "\"", "\\\"").Replace(prefix) + "\""
				emit(streamCase{stream: "names", label: "include-quoted", proj: drv.Project{Root: "root.jst", Files: map[string]string{"root.jst": "JSIGHT 0.3\nINCLUDE " + q + "\n", "a": "TYPE @a any\n"}}, opt: fixed})
				emit(streamCase{stream: "names", label: "include-bare", proj: drv.Project{Root: "root.jst", Files: map[string]string{"root.jst": "JSIGHT 0.3\nINCLUDE " + prefix + "\nTYPE @t any\n", "a": "TYPE @a any\n"}}, opt: fixed})
			}
			if n == 0 {
				return
			}
			for _, a := range alpha {
				recI(prefix+a, n-1)
			}
		}
		recI("", 2)
		for _, host := range []string{"INCLUDE %s\n", "INFO\n  Title %s\n", "INFO\n  Version %s\n", "SERVER %s\n  BaseUrl \"http://x\"\n", "SERVER @s\n  BaseUrl %s\n", "GET %s\n  200 any\n", "URL %s\n  GET\n    200 any\n",
			"URL /r\n  Protocol %s\n  Method m\n", "URL /r\n  Protocol json-rpc-2.0\n  Method %s\n", "TYPE %s any\n", "TYPE @t %s\n", "ENUM %s\n  [1]\n", "MACRO %s\n(\n  200 any\n)\n", "GET /p\n  PASTE %s\n", "TAG %s\n",
			"GET /p\n  Tags %s\n  200 any\n", "GET /p\n  Query %s\n    {}\n  200 any\n", "GET /p\n  200 %s\n", "POST /p\n  Request %s\n  200 any\n", "POST /p\n  Request\n    Body %s\n  200 any\n", "GET /p\n  200\n    Headers %s\n    Body any\n", "JSIGHT %s\n"} {
			for _, v := range []string{"\"\"", "\"\" \"\"", "\"\"x", "\" \""} {
				body := fmt.Sprintf(host, v)
				if !strings.HasPrefix(host, "JSIGHT") {
					body = "JSIGHT 0.3\n" + body
				}
				emit(streamCase{stream: "names", label: "empty-quoted " + strings.Fields(host)[0], proj: drv.Project{Root: "root.jst", Files: map[string]string{"root.jst": body, "a": "TYPE @a any\n"}}, opt: fixed})
			}
		}
		// JSON-RPC ids: method names and paths whose concatenation could coincide
		for _, pr := range [][4]string{{"a /b", "/c", "a", "/b /c"}, {"m", "/x /y", "m /x", "/y"}, {"a", "/b", "a", "/b"}, {"GET", "/x", "get", "/x"}} {
			single("names", "rpc-id-collision", fmt.Sprintf("JSIGHT 0.3\nURL \"%s\"\n  Protocol json-rpc-2.0\n  Method \"%s\"\nURL \"%s\"\n  Protocol json-rpc-2.0\n  Method \"%s\"\n", pr[1], pr[0], pr[3], pr[2]))
		}
	}
}

// runCase executes a stream case.
func runCase(dir *drv.Dir, sc streamCase, full bool) drv.Outcome {
	if len(sc.proj.Files) == 1 && len(sc.proj.Dirs) == 0 {
		name := sc.memName
		if name == "" {
			name = "root.jst"
		}
		if full {
			return drv.RunMemFull(name, sc.proj.Files[sc.proj.Root], sc.opt)
		}
		return drv.RunMem(name, sc.proj.Files[sc.proj.Root], sc.opt)
	}
	o, _ := dir.Run(sc.proj, sc.opt, full)
	return o
}

// multiInstanceDocs: for every kind of named thing the library keeps in a collection, documents
// with 2..3 independent instances of the same fault (or of the same feature) side by side.
func multiInstanceDocs() [][2]string {
	var out [][2]string
	add := func(label, body string) { out = append(out, [2]string{label, "JSIGHT 0.3\n" + body}) }
	// two name sets: ordinary names, and names that differ in letter case only (whatever sorts or
	// compares names case-insensitively must still be deterministic)
	for si, names := range [][]string{{"x", "y", "z"}, {"q", "Q", "qq"}} {
		add := add
		if si > 0 {
			base := add
			add = func(label, body string) { base("case-twins-"+label, body) }
		}
		for n := 2; n <= 3; n++ {
			// repeated path parameters: n different names, each twice
			p1, p2 := "", ""
			for _, nm := range names[:n] {
				p1 += "/a" + nm + "/{" + nm + "}"
				p2 += "/b" + nm + "/{" + nm + "}"
			}
			add(fmt.Sprintf("repeated-path-parameters-%d", n), "GET "+p1+p2+"\n  200 any\n")
			add(fmt.Sprintf("repeated-path-parameters-url-%d", n), "URL "+p1+p2+"\n  GET\n    200 any\n")
			// undefined types / enums / tags, n of each in one place
			var refs, enums, tags, decl, dupT, dupE, dupS, dupG, sim, paths, pprops, pseg string
			for i, nm := range names[:n] {
				refs += fmt.Sprintf("    \"r%d\": @nope%s", i, nm)
				enums += fmt.Sprintf("    \"e%d\": 1 // {enum: @nopeE%s}", i, nm)
				if i < n-1 {
					refs += ","
					enums = strings.Replace(enums, " // {enum: @nopeE"+nm+"}", ", // {enum: @nopeE"+nm+"}", 1)
				}
				refs += "\n"
				enums += "\n"
				tags += " @nopeT" + nm
				decl += "TYPE @d" + nm + " any\n"
				dupT += "TYPE @d" + nm + " any\n"
				dupE += "ENUM @e" + nm + "\n  [1]\n"
				dupS += "SERVER @s" + nm + "\n  BaseUrl \"http://" + nm + "\"\n"
				dupG += "TAG @g" + nm + "\n"
				sim += "GET /s" + nm + "/{p}\n  200 any\nGET /s" + nm + "/{q}\n  200 any\n"
				paths += "GET /dup" + nm + "\n  200 any\n"
				pseg += "/{" + nm + "}"
				pprops += fmt.Sprintf("      \"%s\": 1,\n      \"unused%s\": 2", nm, nm)
				if i < n-1 {
					pprops += ","
				}
				pprops += "\n"
			}
			add(fmt.Sprintf("undefined-types-%d", n), "TYPE @t\n  {\n"+refs+"  }\n")
			add(fmt.Sprintf("undefined-types-in-response-%d", n), "GET /u\n  200\n  {\n"+refs+"  }\n")
			add(fmt.Sprintf("undefined-enums-%d", n), "TYPE @t\n  {\n"+enums+"  }\n")
			add(fmt.Sprintf("undefined-tags-%d", n), "GET /u\n  Tags"+tags+"\n  200 any\n")
			add(fmt.Sprintf("duplicate-types-%d", n), decl+dupT)
			add(fmt.Sprintf("duplicate-enums-%d", n), dupE+dupE)
			add(fmt.Sprintf("duplicate-servers-%d", n), dupS+dupS)
			add(fmt.Sprintf("duplicate-tags-%d", n), dupG+dupG)
			add(fmt.Sprintf("similar-paths-%d", n), sim)
			add(fmt.Sprintf("duplicate-paths-%d", n), paths+paths)
			add(fmt.Sprintf("unused-path-properties-%d", n), "GET /pp"+pseg+"\n  Path\n    {\n"+pprops+"    }\n  200 any\n")
			// accepted documents with n entries in every collection
			add(fmt.Sprintf("n-of-everything-%d", n), dupE+dupS+dupG+decl+"GET /ok"+pseg+"\n  Tags"+strings.ReplaceAll(tags, "@nopeT", "@g")+"\n  200 any\n")
		}
	}
	// several faulty declarations of one kind that a single earlier declaration refers to: which
	// one is reported must not depend on iteration order
	for n := 2; n <= 3; n++ {
		refs, decls := "", ""
		for i := 0; i < n; i++ {
			refs += fmt.Sprintf("    \"r%d\": @rx%d", i, i)
			if i < n-1 {
				refs += ","
			}
			refs += "\n"
			decls += fmt.Sprintf("TYPE @rx%d regex\n  /[a-z(%d/\n", i, i)
		}
		add(fmt.Sprintf("invalid-regex-types-%d", n), "TYPE @user\n  {\n"+refs+"  }\n"+decls)
		add(fmt.Sprintf("invalid-regex-types-used-later-%d", n), decls+"TYPE @user\n  {\n"+refs+"  }\n")
	}
	// the same late fault (a path parameter of an object type) in 2..3 interactions: whichever
	// collection the interactions are walked in, the first in source order is reported
	for n := 2; n <= 3; n++ {
		body := "TYPE @obj\n  {\n    \"a\": 1\n  }\n"
		for i := 0; i < n; i++ {
			body += fmt.Sprintf("GET /late%d/{id}\n  Path\n    {\n      \"id\": @obj\n    }\n  200 any\n", i)
		}
		add(fmt.Sprintf("late-path-faults-%d", n), body)
	}
	// a description of several lines under the other line-end conventions (C03 compiles every
	// document twice from ONE file object: the caller's bytes stay as they are)
	for _, nl := range []string{"\r\n", "\r"} {
		out = append(out, [2]string{fmt.Sprintf("description-lines-%q", nl), strings.ReplaceAll("JSIGHT 0.3\nINFO\n  Title \"T\"\n  Description\n    line one\n      line two\n    line three\n    line four\nGET /d\n  Description\n    a\n    b\n    c\n  200 any\n", "\n", nl)})
	}
	// lists with repetitions: every Tags list of length 2..4 over three declared tags that names some
	// tag twice, at every level that takes a list (method, URL, JSON-RPC method); and the same for
	// allOf lists and or lists of types
	tg := []string{"@ga", "@gb", "@gc"}
	var lists [][]string
	var rec func(cur []string)
	rec = func(cur []string) {
		if len(cur) >= 2 {
			seen, rep := map[string]bool{}, false
			for _, x := range cur {
				if seen[x] {
					rep = true
				}
				seen[x] = true
			}
			if rep && len(seen) >= 2 {
				lists = append(lists, append([]string{}, cur...))
			}
		}
		if len(cur) == 4 {
			return
		}
		for _, t := range tg {
			rec(append(cur, t))
		}
	}
	rec(nil)
	declTags := "TAG @ga\nTAG @gb\nTAG @gc\n"
	for i, l := range lists {
		ls := strings.Join(l, " ")
		add(fmt.Sprintf("repeated-tag-method-%d", i), declTags+"GET /t\n  Tags "+ls+"\n  200 any\n")
		if len(l) <= 3 {
			add(fmt.Sprintf("repeated-tag-url-%d", i), declTags+"URL /t\n  Tags "+ls+"\n  GET\n    200 any\n  POST\n    200 any\n")
			add(fmt.Sprintf("repeated-tag-rpc-%d", i), declTags+"URL /t\n  Protocol json-rpc-2.0\n  Method m\n    Tags "+ls+"\n")
			q := "\"" + strings.ReplaceAll(strings.Join(l, "\", \""), "@g", "@t") + "\""
			add(fmt.Sprintf("repeated-allOf-%d", i), "TYPE @ta\n  {\"a\": 1}\nTYPE @tb\n  {\"b\": 1}\nTYPE @tc\n  {\"c\": 1}\nTYPE @h\n  { // {allOf: ["+q+"]}\n    \"own\": 1\n  }\n")
			add(fmt.Sprintf("repeated-or-%d", i), "TYPE @ta\n  {\"a\": 1}\nTYPE @tb\n  {\"b\": 1}\nTYPE @tc\n  {\"c\": 1}\nTYPE @h\n  1 // {or: ["+q+"]}\n")
		}
	}
	return out
}

// multiInstanceProjects: the same fault once in each of 2..3 included files of identical layout
// (names of equal length, so that the faults sit at equal offsets in their files): which one is
// reported must not depend on map iteration order (C03).
func multiInstanceProjects() []streamCase {
	var out []streamCase
	names := []string{"cats", "dogs", "pigs"}
	templates := map[string]string{
		"recursive-macro":    "# mixin\nMACRO @NAME\n(\n  200 any\n  PASTE @NAME\n)\n",
		"undefined-paste":    "# mixin\nMACRO @NAME\n(\n  PASTE @noNAME\n)\nGET /NAME\n  PASTE @NAME\n",
		"undefined-type":     "# mixin\nTYPE @NAME\n  {\n    \"r\": @noNAME\n  }\n",
		"undefined-enum":     "# mixin\nTYPE @NAME\n  {\n    \"r\": 1 // {enum: @noNAME}\n  }\n",
		"unused-path-param":  "# mixin\nGET /NAME/{id}\n  Path\n    {\n      \"id\": 1,\n      \"unNAME\": 2\n    }\n  200 any\n",
		"nameless-macro-use": "# mixin\nMACRO @NAME\n(\n  PASTE\n)\n",
	}
	var kinds []string
	for k := range templates {
		kinds = append(kinds, k)
	}
	sort.Strings(kinds)
	for _, k := range kinds {
		for n := 2; n <= 3; n++ {
			p := drv.Project{Root: "root.jst", Files: map[string]string{}}
			root := "JSIGHT 0.3\n"
			for _, nm := range names[:n] {
				root += "INCLUDE " + nm + ".jst\n"
				p.Files[nm+".jst"] = strings.ReplaceAll(templates[k], "NAME", nm)
			}
			p.Files["root.jst"] = root
			out = append(out, streamCase{stream: "multi-files", label: fmt.Sprintf("%s-%d", k, n), proj: p, opt: drv.Options{FixedSeed: true}})
		}
	}
	return out
}
