//go:build verif && verifio

package checks

import (
	"fmt"
	"os"
	"path/filepath"
	"strings"

	"verif/internal/drv"
	"verif/internal/fw"

	"github.com/jsightapi/jsight-api-go-library/verifshim/vio"
)

func init() { ioFaultHook = runIOFaults }

var ioAnswerNames = map[int]string{vio.Real: "real", vio.NotExist: "not-exist", vio.Permission: "permission-denied", vio.IOError: "io-error", vio.IsDir: "is-a-directory", vio.Empty: "empty"}

type ioScenario struct {
	name string
	p    drv.Project
	opt  drv.Options
}

func ioScenarios() []ioScenario {
	fixed := drv.Options{FixedSeed: true}
	mk := func(name string, files map[string]string) ioScenario {
		return ioScenario{name, drv.Project{Root: "root.jst", Files: files}, fixed}
	}
	return []ioScenario{
		mk("chain", map[string]string{"root.jst": "JSIGHT 0.3\nINCLUDE a.jst\nTYPE @r any\n", "a.jst": "TYPE @a any\nINCLUDE b.jst\nTYPE @a2 any\n", "b.jst": "TYPE @b any\n"}),
		mk("two-from-one-place", map[string]string{"root.jst": "JSIGHT 0.3\nINCLUDE a.jst\nINCLUDE b.jst\nTYPE @r any\n", "a.jst": "TYPE @a any\n", "b.jst": "TYPE @b any\n"}),
		mk("sub-directory", map[string]string{"root.jst": "JSIGHT 0.3\nINCLUDE sub/a.jst\n", "sub/a.jst": "INCLUDE b.jst\nTYPE @a any\n", "sub/b.jst": "TYPE @b any\n", "b.jst": "TYPE @decoy any\n"}),
		mk("same-file-twice", map[string]string{"root.jst": "JSIGHT 0.3\nINCLUDE c.jst\nTYPE @r any\nINCLUDE c.jst\n", "c.jst": "# nothing\n"}),
		mk("inside-a-method", map[string]string{"root.jst": "JSIGHT 0.3\nGET /x\n  200 any\n  INCLUDE r.jst\nTYPE @r any\n", "r.jst": "404 any\n"}),
		mk("inside-parentheses", map[string]string{"root.jst": "JSIGHT 0.3\nGET /x\n(\n  INCLUDE r.jst\n)\n", "r.jst": "200 any\n"}),
		mk("inside-a-pasted-macro", map[string]string{"root.jst": "JSIGHT 0.3\nMACRO @m\n(\n  INCLUDE r.jst\n)\nGET /x\n  PASTE @m\n", "r.jst": "200 any\n"}),
	}
}

// runIOFaults: file-system answers as an environment the explorer owns (E-ENV): every call the
// library makes while processing a multi-file project is a choice point; every single departure
// (thorough: every pair) from the real answer is executed.
func runIOFaults(c *fw.Ctx, id string) {
	dir := drv.NewDir(fw.Scratch("io"))
	defer os.RemoveAll(filepath.Dir(dir.Path))
	defer dir.Close()
	alts := []int{vio.NotExist, vio.Permission, vio.IOError, vio.IsDir, vio.Empty}
	runWith := func(s ioScenario, dev map[int]int) (drv.Outcome, []vio.Call, string) {
		vio.Begin(func(n int, op, path string) int {
			if a, ok := dev[n]; ok {
				return a
			}
			return vio.Real
		})
		o, root := dir.Run(s.p, s.opt, false)
		return o, vio.End(), filepath.Dir(root)
	}
	for _, s := range ioScenarios() {
		base, calls, projDir := runWith(s, nil)
		_, calls2, _ := runWith(s, nil)
		if len(calls) != len(calls2) {
			c.Note("harness_fault", "file-system call trace of "+s.name+" differs between two identical runs")
			c.NotExhaustive("nondeterministic file-system trace")
			continue
		}
		if c.Shard == 0 {
			c.Count("io_scenarios", 1)
			c.Count("io_calls_in_fault_free_runs", int64(len(calls)))
		}
		// containment (C08): every path the library touches lies inside the project directory
		judgeCalls := func(label string, cs []vio.Call, pd string) {
			for _, k := range cs {
				if !strings.HasPrefix(filepath.Clean(k.Path), pd+string(filepath.Separator)) {
					c.Violate("file-outside-project", id+":io:outside:"+k.Op, fmt.Sprintf("%s: the library calls %s on %q, outside the project directory", label, k.Op, strings.TrimPrefix(k.Path, filepath.Dir(pd))), map[string]interface{}{"scenario": s.name, "project": s.p})
					return
				}
			}
		}
		if id == "C08" {
			judgeCalls(s.name+" (no fault)", calls, projDir)
			if !base.OK() && c.Shard == 0 {
				c.Violate("valid-include-rejected", id+":io:base-rejected", s.name+": rejected without any fault: "+base.Short(), map[string]interface{}{"project": s.p})
			}
		}
		// (C18) with INCLUDE banned nothing is looked at
		if id == "C18" {
			if c.Next() {
				c.Count("evaluations", 1)
				sb := s
				sb.opt.Banned = []string{"INCLUDE"}
				o, cs, _ := runWith(sb, nil)
				c.Distinct("io-ban:" + s.name)
				if len(cs) != 0 {
					c.Violate("banned-include-touches-files", id+":io:ban-touch", fmt.Sprintf("%s with INCLUDE banned: the library still calls %s on %q", s.name, cs[0].Op, filepath.Base(cs[0].Path)), map[string]interface{}{"project": s.p})
				} else if !o.Rejected() || !strings.Contains(o.Msg, "not allowed") {
					c.Violate("ban-not-enforced", id+":io:ban", s.name+" with INCLUDE banned: "+o.Short(), map[string]interface{}{"project": s.p})
				}
			}
			continue
		}
		// single and (thorough) double deviations
		var devs []map[int]int
		for i := range calls {
			for _, a := range alts {
				devs = append(devs, map[int]int{i: a})
			}
		}
		if !c.Quick() {
			for i := range calls {
				for j := i + 1; j < len(calls); j++ {
					for _, a := range alts {
						for _, b := range alts {
							devs = append(devs, map[int]int{i: a, j: b})
						}
					}
				}
			}
		}
		for _, dev := range devs {
			if !c.Next() {
				continue
			}
			c.Count("evaluations", 1)
			var parts []string
			for i := 0; i < len(calls); i++ {
				if a, ok := dev[i]; ok {
					parts = append(parts, fmt.Sprintf("call %d (%s %s) answers %s", i, calls[i].Op, filepath.Base(calls[i].Path), ioAnswerNames[a]))
				}
			}
			label := s.name + ": " + strings.Join(parts, ", ")
			c.Describe("io " + label)
			c.Distinct("io:" + label)
			o, cs, pd := runWith(s, dev)
			wit := map[string]interface{}{"scenario": s.name, "project": s.p, "answers": parts}
			if o.Crashed() {
				if id == "C01" {
					c.Violate("panic", "C01:io:panic:"+o.Site, label+": the library panicked: "+o.Panic, wit)
				}
				continue
			}
			if id == "C01" {
				if strings.HasPrefix(o.Msg, "runtime error:") {
					c.Violate("runtime-fault-as-diagnostic", "C01:io:runtime-error", label+": "+o.Short(), wit)
				}
				continue
			}
			// C08
			judgeCalls(label, cs, pd)
			hard := false // an answer that makes a target unusable was actually given
			onlyEmpty := true
			for i, k := range cs {
				if a, ok := dev[i]; ok && k.Ans == a {
					if a != vio.Empty {
						hard = true
						onlyEmpty = false
					}
				}
			}
			switch {
			case hard && !o.Rejected():
				c.Violate("unusable-include-target-accepted", "C08:io:accepted:"+answerClass(dev, cs), label+": the project is "+o.Short(), wit)
			case hard && o.Msg == "":
				c.Violate("empty-diagnostic", "C08:io:empty-diagnostic", label+": rejected without a message", wit)
			case onlyEmpty:
				// an empty answer is the state "empty file": same result as the project with that file really empty
				p2 := drv.Project{Root: s.p.Root, Files: map[string]string{}}
				for fn, ct := range s.p.Files {
					p2.Files[fn] = ct
				}
				emptied := false
				for i, k := range cs {
					if a, ok := dev[i]; ok && a == vio.Empty && k.Op == "read" {
						if rel, err := filepath.Rel(pd, k.Path); err == nil {
							p2.Files[rel] = ""
							emptied = true
						}
					}
				}
				if emptied {
					vio.Begin(nil)
					o2, _ := dir.Run(p2, s.opt, false)
					vio.End()
					if _, same := sameResult(o, o2); !same {
						c.Violate("empty-answer-differs-from-empty-file", "C08:io:empty", fmt.Sprintf("%s: %s, with the file really empty %s", label, o.Short(), o2.Short()), wit)
					}
				}
			}
		}
	}
}

func answerClass(dev map[int]int, cs []vio.Call) string {
	for i, k := range cs {
		if a, ok := dev[i]; ok && a != vio.Empty {
			return k.Op + ":" + ioAnswerNames[a]
		}
	}
	return "-"
}
