package checks

import (
	"fmt"
	"strings"
	"time"

	"verif/internal/doc"
	"verif/internal/drv"
	"verif/internal/fw"
	"verif/internal/jsonx"
)

func init() {
	fw.Register(&fw.Check{
		ID: "C10", Level: "model_checking",
		Rule:   "documents = JSIGHT + closed selections of 1..2 (quick) / 1..3 (thorough) pool blocks whose closure has <= 5 (quick) / 6 (thorough) top-level declarations; every top-level declaration with children is written with explicit parentheses (self-delimiting); ALL permutations of the declarations after JSIGHT are run and compared with the first order; non-trivial = accepted document with >= 2 declarations; distinct = distinct permuted texts ; and vice versa: every single-fault document of C11 that the scan phase reads (delivered directly), under ALL orders of its top-level declarations (<= 4) or all transpositions (<= 6): the verdict stays 'rejected'",
		Assume: []string{"the order of interaction ids inside a tag entry follows declaration order by design and is compared as a set; every other byte of every entry must be identical"},
		Run:    runC10, QuickCap: 6 * time.Minute, ThoroughCap: 40 * time.Minute,
	})
}

// selfDelimit parenthesises every top-level declaration that has children.
func selfDelimit(nn []*doc.Node) []*doc.Node {
	out := doc.CloneAll(nn)
	for _, n := range out {
		if len(n.Kids) > 0 {
			n.Paren = true
		}
	}
	return out
}

func permutations(n int, f func(p []int) bool) {
	p := make([]int, n)
	for i := range p {
		p[i] = i
	}
	var rec func(k int) bool
	rec = func(k int) bool {
		if k == n {
			return f(p)
		}
		for i := k; i < n; i++ {
			p[k], p[i] = p[i], p[k]
			if !rec(k + 1) {
				return false
			}
			p[k], p[i] = p[i], p[k]
		}
		return true
	}
	rec(0)
}

func catalogEntries(o drv.Outcome) (map[string]string, error) {
	v, dups, err := jsonx.Parse([]byte(o.JSON))
	if err != nil {
		return nil, err
	}
	if len(dups) > 0 {
		return nil, fmt.Errorf("duplicate keys %v", dups)
	}
	m, _ := jsonx.Entries(v, true)
	return m, nil
}

// corpusC10Hook runs the same oracle over the repository's fixtures (set in the verif build).
var corpusC10Hook func(c *fw.Ctx)

func runC10(c *fw.Ctx) {
	if corpusC10Hook != nil {
		corpusC10Hook(c)
	}
	maxDecl := 5
	if !c.Quick() {
		maxDecl = 6
	}
	seen := map[string]bool{}
	docSets(!c.Quick(), func(name string, blocks []doc.Block) {
		if c.Expired() {
			return
		}
		nodes := selfDelimit(doc.Assemble(blocks))
		decls := nodes[1:]
		if len(decls) < 2 || len(decls) > maxDecl {
			return
		}
		key := doc.Text(nodes)
		if seen[key] {
			return
		}
		seen[key] = true
		var base drv.Outcome
		var baseEntries map[string]string
		haveBase := false
		permutations(len(decls), func(p []int) bool {
			if !c.Next() {
				return true
			}
			if !haveBase {
				base = run1(key)
				haveBase = true
				if base.OK() {
					baseEntries, _ = catalogEntries(base)
				}
			}
			perm := []*doc.Node{nodes[0]}
			for _, i := range p {
				perm = append(perm, decls[i])
			}
			text := doc.Text(perm)
			c.Describe(name + " perm " + fmt.Sprint(p))
			c.Count("evaluations", 1)
			if text == key {
				return true
			}
			o := run1(text)
			if base.Crashed() || o.Crashed() {
				c.Count("skipped_crash", 1)
				return true
			}
			if base.OK() {
				c.Distinct(text)
			}
			bad := ""
			var permEntries map[string]string
			if base.Kind != o.Kind {
				bad = fmt.Sprintf("verdict changes: first order %s, permuted %s", base.Short(), o.Short())
			} else if o.OK() {
				e, err := catalogEntries(o)
				permEntries = e
				if err != nil {
					bad = "permuted catalog unreadable: " + err.Error()
				} else if d := jsonx.DiffEntries(baseEntries, e); d != "" {
					bad = "entries change: " + d
				}
			}
			if bad == "" {
				c.Sample("permutation", 2, map[string]interface{}{"doc": name, "perm": fmt.Sprint(p), "verdict": o.Kind})
				return true
			}
			if fw.Confirm(func() bool {
				a, b := run1(key), run1(text)
				if a.Kind != b.Kind {
					return true
				}
				ea, _ := catalogEntries(a)
				eb, _ := catalogEntries(b)
				return jsonx.DiffEntries(ea, eb) != ""
			}) {
				c.Violate("order-dependence", "C10:"+orderSig(bad, base, o, baseEntries, permEntries), fmt.Sprintf("document %s, order %v: %s", name, p, bad),
					map[string]interface{}{"doc": name, "first_order_text": key, "permuted_text": text})
			}
			return true
		})
	})
}

// orderSig classifies an order dependence by what changes (used for known-findings matching).
func orderSig(bad string, a, b drv.Outcome, ea, eb map[string]string) string {
	if a.Kind == b.Kind && ea != nil && eb != nil && allOfAncestorLeakOnly(ea, eb) {
		return "usedUserTypes:allOf-ancestor-leak"
	}
	if a.Kind != b.Kind {
		m := a.Msg
		if m == "" {
			m = b.Msg
		}
		return "verdict:" + firstWordsN(m, 4)
	}
	// first differing entry name's collection + field hint
	if i := strings.Index(bad, "differs: "); i >= 0 {
		rest := bad[i+9:]
		coll := rest
		if j := strings.IndexByte(rest, '/'); j > 0 {
			coll = rest[:j]
		}
		hint := ""
		for _, h := range []string{"usedUserTypes", "usedUserEnums", "inheritedFrom", "interactionGroups", "children"} {
			if strings.Contains(rest, h) {
				hint = h
				break
			}
		}
		return "entry:" + coll + ":" + hint
	}
	return "entries"
}

func firstWordsN(s string, n int) string {
	f := strings.Fields(s)
	if len(f) > n {
		f = f[:n]
	}
	return strings.Join(f, " ")
}

// allOfAncestorLeakOnly reports whether two catalogs differ only in the usedUserTypes list of
// user types, and there only by names that are indirect allOf ancestors of that type (the
// finding pinned by the fixtures SERV-18 / SERV-152).
func allOfAncestorLeakOnly(ea, eb map[string]string) bool {
	if len(ea) != len(eb) {
		return false
	}
	bases := func(entry *jsonx.V) []string { // direct allOf bases of a user type entry
		var out []string
		rules := entry.Path("schema", "content", "rules")
		if rules == nil {
			return nil
		}
		for _, r := range rules.A {
			if r.Get("key").Str() != "allOf" {
				continue
			}
			if r.Get("scalarValue") != nil && r.Get("scalarValue").S != "" {
				out = append(out, r.Get("scalarValue").S)
			}
			if ch := r.Get("children"); ch != nil {
				for _, x := range ch.A {
					out = append(out, x.Get("scalarValue").Str())
				}
			}
		}
		return out
	}
	parsed := map[string]*jsonx.V{}
	for k, v := range ea {
		if strings.HasPrefix(k, "userTypes/") {
			pv, _, err := jsonx.Parse([]byte(v))
			if err != nil {
				return false
			}
			parsed[strings.TrimPrefix(k, "userTypes/")] = pv
		}
	}
	ancestors := func(name string) (direct, indirect map[string]bool) {
		direct, indirect = map[string]bool{}, map[string]bool{}
		var rec func(n string, depth int)
		seen := map[string]bool{}
		rec = func(n string, depth int) {
			e := parsed[n]
			if e == nil || seen[n] {
				return
			}
			seen[n] = true
			for _, b := range bases(e) {
				if depth == 0 {
					direct[b] = true
				} else {
					indirect[b] = true
				}
				rec(b, depth+1)
			}
		}
		rec(name, 0)
		return
	}
	strip := func(v *jsonx.V) (string, map[string]bool) { // entry without schema.usedUserTypes, and that list as a set
		set := map[string]bool{}
		sch := v.Get("schema")
		if sch == nil {
			return v.Canon(), set
		}
		ns := &jsonx.V{Kind: jsonx.Obj}
		for i, k := range sch.Keys {
			if k == "usedUserTypes" {
				for _, x := range sch.Vals[i].A {
					set[x.S] = true
				}
				continue
			}
			ns.Keys = append(ns.Keys, k)
			ns.Vals = append(ns.Vals, sch.Vals[i])
		}
		nv := &jsonx.V{Kind: jsonx.Obj}
		for i, k := range v.Keys {
			if k == "schema" {
				nv.Keys = append(nv.Keys, k)
				nv.Vals = append(nv.Vals, ns)
				continue
			}
			nv.Keys = append(nv.Keys, k)
			nv.Vals = append(nv.Vals, v.Vals[i])
		}
		return nv.Canon(), set
	}
	found := false
	for k, va := range ea {
		vb, ok := eb[k]
		if !ok {
			return false
		}
		if va == vb {
			continue
		}
		if !strings.HasPrefix(k, "userTypes/") {
			return false
		}
		pa, _, e1 := jsonx.Parse([]byte(va))
		pb, _, e2 := jsonx.Parse([]byte(vb))
		if e1 != nil || e2 != nil {
			return false
		}
		sa, la := strip(pa)
		sb, lb := strip(pb)
		if sa != sb {
			return false
		}
		_, indirect := ancestors(strings.TrimPrefix(k, "userTypes/"))
		for n := range la {
			if !lb[n] && !indirect[n] {
				return false
			}
		}
		for n := range lb {
			if !la[n] && !indirect[n] {
				return false
			}
		}
		found = true
	}
	return found
}
