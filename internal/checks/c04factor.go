//go:build verif

package checks

import (
	"fmt"

	"github.com/jsightapi/jsight-api-go-library/directive"

	"verif/internal/doc"
	"verif/internal/fw"
)

// Macro-factored renderings (C04: "all abstract API models ... times all their concrete
// renderings"): a sub-tree of an accepted document is written once as the body of a macro and
// pasted where it stood - and, when the same sub-tree occurs in two places (a URL block and its
// twin on another path), pasted in both. The model is unchanged, so the text must be accepted and
// give the byte-identical catalog. This is the direction C07 does not state: there the macro form is
// the premise, here the plain form is.
func c04Factored(c *fw.Ctx) {
	pasteT, _ := directive.NewDirectiveType("PASTE")
	admitsPaste := func(parent *doc.Node) bool {
		if parent == nil {
			return pasteT.IsAllowedForRootContext()
		}
		pt, err := directive.NewDirectiveType(parent.Kw)
		return err == nil && pt.IsAllowedForDirectiveContext(pasteT)
	}
	macroAdmits := func(n *doc.Node) bool {
		t, err := directive.NewDirectiveType(n.Kw)
		return err == nil && directive.Macro.IsAllowedForDirectiveContext(t)
	}
	compare := func(label string, plain, factored []*doc.Node) {
		if !c.Next() {
			return
		}
		c.Count("evaluations", 1)
		c.Describe(label)
		a := run1(doc.Text(plain))
		if !a.OK() {
			c.Count("factored_base_not_accepted", 1)
			return
		}
		tb := doc.Text(factored)
		c.Distinct(tb)
		b := run1(tb)
		if docTap != nil {
			docTap(label, tb, b)
			return
		}
		if b.Crashed() {
			c.Count("skipped_crash", 1)
			return
		}
		if b.OK() && b.JSON == a.JSON {
			c.Sample("macro-factored", 2, map[string]interface{}{"label": label, "text": tb})
			return
		}
		if fw.Confirm(func() bool { x, y := run1(doc.Text(plain)), run1(tb); return x.OK() && !(y.OK() && x.JSON == y.JSON) }) {
			det := fmt.Sprintf("%s: written plainly %s, with the sub-tree factored into a macro %s", label, a.Short(), b.Short())
			if b.OK() {
				det += "; JSON differs: " + firstDiff(a.JSON, b.JSON)
			}
			c.Violate("macro-rendering-differs", "C04:macro-factored:"+changeClass(a, b), det, map[string]interface{}{"plain_text": doc.Text(plain), "factored_text": tb})
		}
	}
	// (1) every sub-tree of every single pool block (and of every pair in the thorough tier)
	docSets(false, func(name string, blocks []doc.Block) {
		if c.Expired() || (c.Quick() && len(blocks) > 3) {
			return
		}
		plain := selfDelimit(doc.Assemble(blocks))
		if doc.Has(plain, "MACRO") {
			return
		}
		idx := 0
		doc.Walk(plain, func(n *doc.Node, depth int, parent *doc.Node) {
			my := idx
			idx++
			if n.Kw == "JSIGHT" || !macroAdmits(n) || !admitsPaste(parent) {
				return
			}
			f := doc.CloneAll(plain)
			target := nthNode(f, my)
			par := parentOf(f, target)
			sub := target.Clone()
			if len(sub.Kids) > 0 {
				sub.Paren = true
			}
			ps := doc.N("PASTE", "@fct")
			if !replaceNodeIn(&f, par, target, ps) {
				return
			}
			f = append(f, doc.N("MACRO", "@fct").WithParen().WithKids(sub))
			compare(fmt.Sprintf("factor %s node %d (%s)", name, my, n.Kw), plain, f)
		})
	})
	// (2) twins: a URL block and a copy of it on another path share every child sub-tree; each is
	// pasted twice from one macro
	for _, b := range doc.Pool() {
		if c.Expired() {
			return
		}
		nodes := b.Nodes()
		if len(nodes) != 1 || nodes[0].Kw != "URL" || len(nodes[0].Params) == 0 {
			continue
		}
		mk := func() ([]*doc.Node, *doc.Node, *doc.Node) {
			closure := doc.Closure([]doc.Block{b})
			plain := selfDelimit(doc.Assemble(closure))
			var u *doc.Node
			for _, n := range plain {
				if n.Kw == "URL" && n.Params[0] == nodes[0].Params[0] {
					u = n
				}
			}
			twin := u.Clone()
			twin.Params[0] = twinPath(u.Params[0])
			plain = append(plain, twin)
			return plain, u, twin
		}
		plain, u, _ := mk()
		if doc.Has(plain, "MACRO") {
			continue
		}
		for k := range u.Kids {
			if !macroAdmits(u.Kids[k]) || u.Kids[k].Kw == "Protocol" {
				continue
			}
			f, fu, ft := mk()
			sub := fu.Kids[k].Clone()
			if len(sub.Kids) > 0 {
				sub.Paren = true
			}
			fu.Kids[k] = doc.N("PASTE", "@twin")
			ft.Kids[k] = doc.N("PASTE", "@twin")
			f = append(f, doc.N("MACRO", "@twin").WithParen().WithKids(sub))
			compare(fmt.Sprintf("twin %s child %d (%s)", b.Name, k, sub.Kw), plain, f)
		}
	}
}

// twinPath puts the twin of a URL block on an unrelated path with the same parameters.
func twinPath(p string) string {
	if len(p) > 1 && p[1] == '{' {
		return p + "/twin"
	}
	// "/a/{id}" -> "/twin-a/{id}"
	return "/twin-" + p[1:]
}

func parentOf(forest []*doc.Node, x *doc.Node) *doc.Node {
	var res *doc.Node
	doc.Walk(forest, func(n *doc.Node, _ int, parent *doc.Node) {
		if n == x {
			res = parent
		}
	})
	return res
}

func replaceNodeIn(forest *[]*doc.Node, par, old, repl *doc.Node) bool {
	if par == nil {
		for i, n := range *forest {
			if n == old {
				(*forest)[i] = repl
				return true
			}
		}
		return false
	}
	for i, n := range par.Kids {
		if n == old {
			par.Kids[i] = repl
			return true
		}
	}
	return false
}
