package checks

import (
	"fmt"
	"sort"
	"strings"
	"time"

	"verif/internal/doc"
	"verif/internal/drv"
	"verif/internal/fw"
	"verif/internal/jsonx"
)

func init() {
	fw.Register(&fw.Check{
		ID: "C04", Level: "model_checking",
		Rule: "abstract API models rendered to text and compared with a reference catalog computed from the model (never from the text): (a) one focus HTTP method = request form {none, @type, [@type], inline schema, regex, any, empty, Headers+Body, Body only} x response list of length 0..2 over 9 response forms x query {none; example absent / present x format absent / htmlFormEncoded / noFormat} x annotation x description x placement {path-bearing at top level, first / second method of an implicit URL block, of a parenthesised URL block}, between filler declarations; (b) JSON-RPC method = annotation x description x params x result x placement; (c) declarations: every subset of INFO children, SERVER with/without annotation, TYPE of every notation and body of the body alphabet with/without annotation, ENUM with notes, in three positions among fillers; (e) macro-factored renderings: every sub-tree of every pool block written once as a macro body and pasted where it stood, and every child sub-tree of a URL block pasted into the block and into its twin on another path: accepted, byte-identical catalog; (d, thorough) every focus method also written with CRLF line ends, tab indentation and trailing comments; oracle: every field the model declares equals the catalog's, collections hold exactly the expected keys in source order, arrays have exactly the expected length, undeclared optional fields are absent; non-trivial = accepted model; distinct = distinct texts ; E-REFCAT: a reference compiler (lexemes of the real scanner -> forest by the reference resolver of C06 -> every PASTE replaced by the token stream of its macro and resolved again -> what the sentences say the catalog holds) run over every single-file fixture of the repository, every closed selection of 1..2 (thorough 3) pool blocks and every document the generators of C13 and C19 build: interaction ids in source order, names of servers / user types / enums in source order, info.title / info.version / base URLs read back exactly, annotation of every interaction and named entry ; the focus method in every HTTP method kind (POST in full, the others against methods departing from the default in at most one respect); one more rendering: an empty line between Description and its bare text ; JSON-RPC: the Protocol directive first, between the methods and last",
		Assume: []string{"schema content is compared by a digest (token type, type, keys and values of children, used user types) computed from the model for a body alphabet of 10 schemas; the schema library is trusted for the rest of the AST",
			"unknown additional scalar fields inside an entry are ignored (projection), membership and order of every collection are exact"},
		Run: runC04, QuickCap: 8 * time.Minute, ThoroughCap: 40 * time.Minute,
	})
}

// exp is a flattened expectation: path -> value; "<absent>" asserts absence.
type exp map[string]string

const absent = "<absent>"

// body of the body alphabet with its expected digest.
type bodyAlt struct {
	name   string
	param  string // written as a parameter (type reference forms), "" when it needs a body
	body   string // written as a body
	nota   string
	format string
	digest func(e exp, p string) // expectations below <p> (= "...schema")
}

func jsightDigest(tokenType, typ, scalar string, kids [][3]string, used []string) func(e exp, p string) {
	return func(e exp, p string) {
		e[p+".notation"] = "jsight"
		e[p+".content.tokenType"] = tokenType
		e[p+".content.type"] = typ
		if scalar != "" {
			e[p+".content.scalarValue"] = scalar
		}
		if kids != nil {
			e[p+".content.children.#len"] = fmt.Sprint(len(kids))
			for i, k := range kids {
				q := fmt.Sprintf("%s.content.children[%d]", p, i)
				if k[0] != "" {
					e[q+".key"] = k[0]
				}
				e[q+".tokenType"] = k[1]
				e[q+".scalarValue"] = k[2]
			}
		}
		if len(used) > 0 {
			e[p+".usedUserTypes.#len"] = fmt.Sprint(len(used))
			for i, u := range used {
				e[fmt.Sprintf("%s.usedUserTypes[%d]", p, i)] = u
			}
		} else {
			e[p+".usedUserTypes"] = absent
		}
	}
}

func bodyAlphabet() []bodyAlt {
	return []bodyAlt{
		{name: "ref", param: "@t", body: "@t", nota: "jsight", format: "json", digest: jsightDigest("reference", "@t", "@t", nil, []string{"@t"})},
		{name: "arr", param: "[@t]", body: "[@t]", nota: "jsight", format: "json", digest: jsightDigest("array", "array", "", [][3]string{{"", "reference", "@t"}}, []string{"@t"})},
		{name: "obj", body: "{\n  \"id\": 7, // note\n  \"nm\": \"x\"\n}", nota: "jsight", format: "json", digest: jsightDigest("object", "object", "", [][3]string{{"id", "number", "7"}, {"nm", "string", "x"}}, nil)},
		{name: "empty-obj", body: "{}", nota: "jsight", format: "json", digest: jsightDigest("object", "object", "", [][3]string{}, nil)},
		{name: "or", body: "@t | @u", nota: "jsight", format: "json", digest: jsightDigest("reference", "mixed", "@t | @u", nil, []string{"@t", "@u"})},
		{name: "num", body: "42", nota: "jsight", format: "json", digest: jsightDigest("number", "integer", "42", nil, nil)},
		{name: "str", body: "\"s\"", nota: "jsight", format: "json", digest: jsightDigest("string", "string", "s", nil, nil)},
		{name: "regex", param: "regex", body: "/ab+/", nota: "regex", format: "plainString", digest: func(e exp, p string) {
			e[p+".notation"] = "regex"
			e[p+".content"] = "ab+"
			e[p+".usedUserTypes"] = absent
		}},
		{name: "any", param: "any", nota: "any", format: "binary", digest: func(e exp, p string) {
			e[p+".notation"] = "any"
			e[p+".content"] = absent
		}},
		{name: "empty", param: "empty", nota: "empty", format: "binary", digest: func(e exp, p string) {
			e[p+".notation"] = "empty"
			e[p+".content"] = absent
		}},
	}
}

func baByName(n string) bodyAlt {
	for _, b := range bodyAlphabet() {
		if b.name == n {
			return b
		}
	}
	panic(n)
}

// bodyNode builds "<kw> <param>" / "<kw>\n  body" for a body alternative.
func bodyNode(kw string, b bodyAlt, asParam bool) *doc.Node {
	n := doc.N(kw)
	switch {
	case b.nota == "regex":
		n.Params = []string{"regex"}
		n.Body = b.body
	case b.nota == "any" || b.nota == "empty":
		n.Params = []string{b.param}
	case asParam && b.param != "":
		n.Params = []string{b.param}
	default:
		n.Body = b.body
	}
	return n
}

var headersBody = "{\n  \"X-H\": \"v\"\n}"

func headersDigest(e exp, p string) {
	jsightDigest("object", "object", "", [][3]string{{"X-H", "string", "v"}}, nil)(e, p)
}

// response / request forms
type respForm struct {
	name  string
	build func(code string) *doc.Node
	exp   func(e exp, p string) // p = "...responses[i]"
}

func respForms() []respForm {
	mk := func(name string, b bodyAlt, asParam, ann bool) respForm {
		return respForm{name, func(code string) *doc.Node {
			n := bodyNode(code, b, asParam)
			if ann {
				n.Ann = "resp note"
			}
			return n
		}, func(e exp, p string) {
			if ann {
				e[p+".annotation"] = "resp note"
			} else {
				e[p+".annotation"] = absent
			}
			e[p+".headers"] = absent
			e[p+".body.format"] = b.format
			b.digest(e, p+".body.schema")
		}}
	}
	fs := []respForm{
		mk("ref-param", baByName("ref"), true, false),
		mk("arr-param-ann", baByName("arr"), true, true),
		mk("obj-body", baByName("obj"), false, true),
		mk("or-body", baByName("or"), false, false),
		mk("regex", baByName("regex"), false, false),
		mk("any", baByName("any"), false, true),
		mk("empty", baByName("empty"), false, false),
	}
	fs = append(fs, respForm{"headers+body", func(code string) *doc.Node {
		return doc.N(code).WithAnn("with kids").WithKids(doc.N("Headers").WithBody(headersBody), bodyNode("Body", baByName("num"), false))
	}, func(e exp, p string) {
		e[p+".annotation"] = "with kids"
		headersDigest(e, p+".headers.schema")
		e[p+".body.format"] = "json"
		baByName("num").digest(e, p+".body.schema")
	}})
	// headers given as a reference to an object type (the same type the request's headers name)
	fs = append(fs, respForm{"headers-ref+body", func(code string) *doc.Node {
		return doc.N(code).WithKids(doc.N("Headers").WithBody("@t"), bodyNode("Body", baByName("num"), false))
	}, func(e exp, p string) {
		e[p+".annotation"] = absent
		baByName("ref").digest(e, p+".headers.schema")
		e[p+".body.format"] = "json"
		baByName("num").digest(e, p+".body.schema")
	}})
	fs = append(fs, respForm{"body-child-ref", func(code string) *doc.Node {
		return doc.N(code).WithKids(bodyNode("Body", baByName("ref"), true))
	}, func(e exp, p string) {
		e[p+".annotation"] = absent
		e[p+".headers"] = absent
		e[p+".body.format"] = "json"
		baByName("ref").digest(e, p+".body.schema")
	}})
	return fs
}

type reqForm struct {
	name  string
	build func() *doc.Node // nil: no request
	exp   func(e exp, p string)
}

func reqForms() []reqForm {
	mk := func(name string, b bodyAlt, asParam bool) reqForm {
		return reqForm{name, func() *doc.Node { return bodyNode("Request", b, asParam) }, func(e exp, p string) {
			e[p+".headers"] = absent
			e[p+".body.format"] = b.format
			b.digest(e, p+".body.schema")
		}}
	}
	fs := []reqForm{
		{"none", nil, func(e exp, p string) { e[p] = absent }},
		mk("ref-param", baByName("ref"), true),
		mk("arr-param", baByName("arr"), true),
		mk("obj-body", baByName("obj"), false),
		mk("str-body", baByName("str"), false),
		mk("regex", baByName("regex"), false),
		mk("any", baByName("any"), false),
		mk("empty", baByName("empty"), false),
	}
	fs = append(fs, reqForm{"headers+body", func() *doc.Node {
		return doc.N("Request").WithKids(doc.N("Headers").WithBody(headersBody), bodyNode("Body", baByName("arr"), true))
	}, func(e exp, p string) {
		headersDigest(e, p+".headers.schema")
		e[p+".body.format"] = "json"
		baByName("arr").digest(e, p+".body.schema")
	}})
	fs = append(fs, reqForm{"headers-ref+body", func() *doc.Node {
		return doc.N("Request").WithKids(doc.N("Headers").WithBody("@t"), bodyNode("Body", baByName("str"), false))
	}, func(e exp, p string) {
		baByName("ref").digest(e, p+".headers.schema")
		e[p+".body.format"] = "json"
		baByName("str").digest(e, p+".body.schema")
	}})
	fs = append(fs, reqForm{"body-child-regex", func() *doc.Node {
		return doc.N("Request").WithKids(bodyNode("Body", baByName("regex"), false))
	}, func(e exp, p string) {
		e[p+".headers"] = absent
		e[p+".body.format"] = "plainString"
		baByName("regex").digest(e, p+".body.schema")
	}})
	return fs
}

// flatten a JSON value into path -> scalar, with #len for arrays and #keys for objects.
func flatten(v *jsonx.V, p string, out map[string]string) {
	switch v.Kind {
	case jsonx.Obj:
		out[p+".#keys"] = strings.Join(v.Keys, "|")
		for i, k := range v.Keys {
			flatten(v.Vals[i], p+"."+k, out)
		}
	case jsonx.Arr:
		out[p+".#len"] = fmt.Sprint(len(v.A))
		for i, x := range v.A {
			flatten(x, fmt.Sprintf("%s[%d]", p, i), out)
		}
	case jsonx.Null:
		out[p] = "null"
	default:
		out[p] = v.S
	}
}

// compareExp returns the first mismatches between expectation and catalog.
func compareExp(e exp, js string) string {
	cat, dups, err := jsonx.Parse([]byte(js))
	if err != nil || len(dups) > 0 {
		return fmt.Sprintf("catalog unreadable: %v %v", err, dups)
	}
	got := map[string]string{}
	flatten(cat, "$", got)
	var keys []string
	for k := range e {
		keys = append(keys, k)
	}
	sort.Strings(keys)
	var ds []string
	for _, k := range keys {
		want := e[k]
		if want == absent {
			for g := range got {
				if g == k || strings.HasPrefix(g, k+".") || strings.HasPrefix(g, k+"[") {
					ds = append(ds, fmt.Sprintf("%s should be absent, catalog has %s=%q", k, g, got[g]))
					break
				}
			}
			continue
		}
		if g, ok := got[k]; !ok {
			ds = append(ds, fmt.Sprintf("%s missing (expected %q)", k, want))
		} else if g != want {
			ds = append(ds, fmt.Sprintf("%s = %q, expected %q", k, g, want))
		}
	}
	if len(ds) > 3 {
		ds = append(ds[:3], fmt.Sprintf("… %d more", len(ds)-3))
	}
	return strings.Join(ds, "; ")
}

func keysPath(coll string) string { return "$." + coll + ".#keys" }

// fillers are declarations around the focus; they contribute known entries.
func fillerTypes(e exp) []*doc.Node {
	return []*doc.Node{
		doc.N("TYPE", "@t").WithBody("{\n  \"id\": 1\n}"),
		doc.N("TYPE", "@u").WithBody("\"uu\""),
	}
}

func runC04(c *fw.Ctx) {
	// the check's own generator first: the time cap, if it cuts, cuts the documents of the others
	genC04(c)
	if refcatHook != nil {
		refcatHook(c, "C04")
		refcatCross(c, "C04", genC13, genC19)
	}
}

// genC04 is the document generator of C04 with its own judgement (or the tap's).
func genC04(c *fw.Ctx) {
	c04Factored(c)
	opt := drv.Options{FixedSeed: true}
	judge := func(label string, nodes []*doc.Node, e exp, style string) {
		blankText := ""
		if style == "desc-blank" {
			// an empty line between the Description keyword and its bare text (surrounding blank
			// lines are not part of a description); only documents that have such a description
			r := doc.Render(nodes, doc.DefaultStyle())
			var b strings.Builder
			changed := false
			for i, l := range r.Lines {
				b.WriteString(r.Text[l.Begin:l.End])
				b.WriteString("\n")
				if l.Kind == doc.LDirective && l.Span.Node.Kw == "Description" && i+1 < len(r.Lines) && r.Lines[i+1].Kind == doc.LText {
					b.WriteString("\n")
					changed = true
				}
			}
			if !changed {
				return
			}
			blankText = b.String()
		}
		if !c.Next() {
			return
		}
		c.Count("evaluations", 1)
		c.Describe(label)
		text := doc.Text(nodes)
		switch style {
		case "desc-blank":
			text = blankText
		case "crlf":
			text = strings.ReplaceAll(text, "\n", "\r\n")
		case "tabs":
			text = strings.ReplaceAll(text, "  ", "\t")
			// free text is content: the expected descriptions are re-indented the same way
			e2 := exp{}
			for k, v := range e {
				if strings.HasSuffix(k, ".description") && v != absent {
					v = strings.ReplaceAll(v, "  ", "\t")
				}
				e2[k] = v
			}
			e = e2
		case "comments":
			r := doc.Render(nodes, doc.DefaultStyle())
			var b strings.Builder
			for _, l := range r.Lines {
				b.WriteString(r.Text[l.Begin:l.End])
				if l.Kind == doc.LDirective && l.Span.Node.Kw != "Description" {
					b.WriteString(" # c")
				}
				b.WriteString("\n")
			}
			text = b.String()
		}
		o := drv.RunMem("root.jst", text, opt)
		if docTap != nil {
			docTap(label, text, o)
			return
		}
		if o.Crashed() {
			c.Count("skipped_crash", 1)
			return
		}
		c.Distinct(text)
		if !o.OK() {
			c.Violate("valid-model-rejected", "C04:rejected:"+sigHead(label)+":"+firstWordsN(o.Msg, 4), label+": "+o.Short(), map[string]interface{}{"text": text})
			return
		}
		if d := compareExp(e, o.JSON); d != "" {
			c.Violate("catalog-differs-from-model", "C04:"+sigHead(label)+":"+firstPath(d), label+": "+d, map[string]interface{}{"text": text})
			return
		}
		c.Sample(sigHead(label), 1, map[string]interface{}{"label": label, "text": text})
	}
	styles := []string{"", "desc-blank"}
	if !c.Quick() {
		styles = []string{"", "desc-blank", "crlf", "tabs", "comments"}
	}

	// (a) focus HTTP method
	rf, qf := respForms(), reqForms()
	type qform struct {
		name  string
		build func() *doc.Node
		exp   func(e exp, p string)
	}
	qdig := func(e exp, p string) {
		jsightDigest("object", "object", "", [][3]string{{"a", "number", "1"}}, nil)(e, p+".schema")
	}
	// Query: {no directive} + example {absent, present} x format {absent, htmlFormEncoded, noFormat}
	queries := []qform{{"none", nil, func(e exp, p string) { e[p] = absent }}}
	for _, ex := range []string{"", "a=1&b=2"} {
		for _, fm := range []string{"", "htmlFormEncoded", "noFormat"} {
			ex, fm := ex, fm
			name := "query"
			if ex != "" {
				name += "+example"
			}
			if fm != "" {
				name += "+" + fm
			}
			queries = append(queries, qform{name, func() *doc.Node {
				n := doc.N("Query")
				if ex != "" {
					n.Params = append(n.Params, "\""+ex+"\"")
				}
				if fm != "" {
					n.Params = append(n.Params, fm)
				}
				return n.WithBody("{\n  \"a\": 1\n}")
			}, func(e exp, p string) {
				if fm == "" {
					e[p+".format"] = "htmlFormEncoded"
				} else {
					e[p+".format"] = fm
				}
				if ex == "" {
					e[p+".example"] = absent
				} else {
					e[p+".example"] = ex
				}
				qdig(e, p)
			}})
		}
	}
	var respLists [][]int
	respLists = append(respLists, nil)
	for i := range rf {
		respLists = append(respLists, []int{i})
	}
	for i := range rf {
		for j := range rf {
			respLists = append(respLists, []int{i, j})
		}
	}
	codeSets := [][]string{{"200", "404"}, {"200", "200"}} // two responses may carry the same code
	placements := []string{"top", "url-implicit-first", "url-implicit-second", "url-paren-first", "url-paren-second", "after-tagged-url"}
	for _, style := range styles {
		for _, pl := range placements {
			for _, kind := range []string{"POST", "PUT", "PATCH", "DELETE"} {
				for qi, q := range qf {
					for _, rl := range respLists {
						for qu, qy := range queries {
							for _, ann := range []bool{false, true} {
								for _, desc := range []bool{false, true} {
									for tagMode := 0; tagMode <= 3; tagMode++ {
										for csi, codes := range codeSets {
											for kidOrder := 0; kidOrder <= 1; kidOrder++ {
												if kidOrder == 1 && (csi > 0 || tagMode > 1 || len(rl) == 0 || (qu == 0 && !desc && qi == 0)) {
													continue // the order of the children varies when there is something besides responses
												}
												if csi > 0 && (len(rl) != 2 || tagMode != 0 || qu != 0 || ann || desc || qi != 0) {
													continue // the same code twice varies against an otherwise default method
												}
												if c.Expired() {
													return
												}
												// tagMode: 0 no Tags, 1 the method's own Tags, 2 Tags of the enclosing URL, 3 both
												isURL := strings.HasPrefix(pl, "url-")
												if tagMode >= 2 && !isURL {
													continue
												}
												if tagMode != 0 && (qu != 0 || ann || desc || qi > 1 || len(rl) > 1) {
													continue // deviation bound: Tags vary against an otherwise default method
												}
												// deviation bound on the "small" attributes: at most two of {query, annotation, description} depart from default together with a non-default request
												dev := 0
												if qu != 0 {
													dev++
												}
												if ann {
													dev++
												}
												if desc {
													dev++
												}
												if qi != 0 && len(rl) == 2 && dev > 1 {
													continue
												}
												if kind != "POST" {
													// every method kind expresses the same things: the other kinds against
													// methods that depart from the default in at most one respect
													if dev+b2i(qi != 0)+b2i(len(rl) > 1)+b2i(tagMode != 0)+b2i(kidOrder != 0)+b2i(csi != 0) > 1 {
														continue
													}
												}
												e := exp{}
												m := doc.N(kind)
												if ann {
													m.Ann = "does things"
												}
												if desc {
													m.Kids = append(m.Kids, doc.N("Description").WithBody("Long text\n  indented more"))
												}
												if qy.build != nil {
													m.Kids = append(m.Kids, qy.build())
												}
												if q.build != nil {
													m.Kids = append(m.Kids, q.build())
												}
												for k, ri := range rl {
													m.Kids = append(m.Kids, rf[ri].build(codes[k]))
												}
												if kidOrder == 1 {
													// the responses first (in their order), then the other children in reverse
													var resp, rest []*doc.Node
													for _, kd := range m.Kids {
														if len(kd.Kw) == 3 && kd.Kw[0] >= '1' && kd.Kw[0] <= '5' {
															resp = append(resp, kd)
														} else {
															rest = append([]*doc.Node{kd}, rest...)
														}
													}
													m.Kids = append(resp, rest...)
												}
												if tagMode == 1 || tagMode == 3 {
													m.Kids = append(m.Kids, doc.N("Tags", "@own"))
												}
												path := "/focus"
												id := "http " + kind + " " + path
												nodes := []*doc.Node{doc.Jsight()}
												nodes = append(nodes, fillerTypes(e)...)
												var ids []string
												other := doc.N("GET").WithKids(doc.N("204", "empty"))
												switch pl {
												case "after-tagged-url":
													// an implicit URL block with URL-level Tags, directly followed by the path-bearing focus
													nodes = append(nodes, doc.N("TAG", "@grp"), doc.N("URL", "/tagged").WithKids(doc.N("Tags", "@grp"), doc.N("GET").WithKids(doc.N("204", "empty"))))
													m.Params = []string{path}
													nodes = append(nodes, m)
													ids = []string{"http GET /tagged", id}
													e["$.interactions.http GET /tagged.tags[0]"] = "@grp"
												case "top":
													m.Params = []string{path}
													m.Paren = len(m.Kids) > 0
													nodes = append(nodes, m)
													ids = []string{id}
												default:
													u := doc.N("URL", path)
													u.Paren = strings.Contains(pl, "paren")
													if tagMode >= 2 {
														u.Kids = append(u.Kids, doc.N("Tags", "@ugrp"))
													}
													m.Paren = len(m.Kids) > 0 // keep the focus self-delimiting inside the block
													if strings.HasSuffix(pl, "first") {
														u.Kids = append(u.Kids, m, other)
														ids = []string{id, "http GET " + path}
													} else {
														u.Kids = append(u.Kids, other, m)
														ids = []string{"http GET " + path, id}
													}
													nodes = append(nodes, u)
												}
												nodes = append(nodes, doc.N("TYPE", "@after", "any"))
												e[keysPath("interactions")] = strings.Join(ids, "|")
												e[keysPath("userTypes")] = "@t|@u|@after"
												e["$.info"] = absent
												e["$.servers"] = absent
												e["$.userEnums"] = absent
												e["$.jsight"] = "0.3"
												p := "$.interactions." + id
												e[p+".id"] = id
												e[p+".protocol"] = "http"
												e[p+".httpMethod"] = kind
												e[p+".path"] = path
												e[p+".pathVariables"] = absent
												e[p+".tags.#len"] = "1"
												switch tagMode {
												case 0:
													e[p+".tags[0]"] = "@focus"
												case 1, 3:
													e[p+".tags[0]"] = "@own" // the method's own Tags win
												case 2:
													e[p+".tags[0]"] = "@ugrp"
												}
												if tagMode != 0 {
													nodes = append(nodes, doc.N("TAG", "@own").WithAnn("Own"), doc.N("TAG", "@ugrp"))
													e["$.tags.@own.title"] = "Own"
													e["$.tags.@ugrp.title"] = "@ugrp"
													if isURL {
														// the sibling method has no Tags of its own
														sib := "@focus"
														if tagMode >= 2 {
															sib = "@ugrp"
														}
														e["$.interactions.http GET "+path+".tags.#len"] = "1"
														e["$.interactions.http GET "+path+".tags[0]"] = sib
													}
												}
												if ann {
													e[p+".annotation"] = "does things"
												} else {
													e[p+".annotation"] = absent
												}
												if desc {
													e[p+".description"] = "Long text\n  indented more"
												} else {
													e[p+".description"] = absent
												}
												qy.exp(e, p+".query")
												q.exp(e, p+".request")
												if len(rl) == 0 {
													e[p+".responses"] = absent
												} else {
													e[p+".responses.#len"] = fmt.Sprint(len(rl))
													for k, ri := range rl {
														rp := fmt.Sprintf("%s.responses[%d]", p, k)
														e[rp+".code"] = codes[k]
														rf[ri].exp(e, rp)
													}
												}
												if len(ids) == 2 && pl != "after-tagged-url" {
													op := "$.interactions.http GET " + path
													e[op+".httpMethod"] = "GET"
													e[op+".responses.#len"] = "1"
													e[op+".responses[0].code"] = "204"
													e[op+".request"] = absent
													e[op+".query"] = absent
												}
												names := []string{}
												for _, ri := range rl {
													names = append(names, rf[ri].name)
												}
												label := fmt.Sprintf("http %s kind=%s req=%s resp=%v codes=%v query=%s ann=%v desc=%v tags=%d kids=%d style=%s", pl, kind, q.name, names, codes, qy.name, ann, desc, tagMode, kidOrder, style)
												judge(label, nodes, e, style)
											}
										}
									}
								}
							}
						}
					}
				}
			}
		}
	}

	// (b) JSON-RPC
	for _, paren := range []bool{false, true} {
		for _, second := range []bool{false, true} {
			for mask := 0; mask < 16; mask++ {
				e := exp{}
				ann, desc, params, result := mask&1 != 0, mask&2 != 0, mask&4 != 0, mask&8 != 0
				m := doc.N("Method", "do.it")
				if ann {
					m.Ann = "rpc note"
				}
				if desc {
					m.Kids = append(m.Kids, doc.N("Description").WithBody("rpc text"))
				}
				if params {
					m.Kids = append(m.Kids, doc.N("Params").WithBody("{\n  \"id\": 7, // note\n  \"nm\": \"x\"\n}"))
				}
				if result {
					m.Kids = append(m.Kids, doc.N("Result").WithBody("[@t]"))
				}
				m.Paren = len(m.Kids) > 0
				kidsInOrder := append([]*doc.Node{}, m.Kids...)
				permutations(len(kidsInOrder), func(perm []int) bool {
					m.Kids = nil
					for _, pi := range perm {
						m.Kids = append(m.Kids, kidsInOrder[pi])
					}
					other := doc.N("Method", "other")
					u := doc.N("URL", "/rpc")
					u.Paren = paren
					ids := []string{"json-rpc-2.0 do.it /rpc", "json-rpc-2.0 other /rpc"}
					for protoPos := 0; protoPos <= 2; protoPos++ {
						// the Protocol directive first, between the methods, last: the children of a URL are
						// a set, too
						ms := []*doc.Node{m, other}
						if second {
							ms = []*doc.Node{other, m}
							ids = []string{"json-rpc-2.0 other /rpc", "json-rpc-2.0 do.it /rpc"}
						}
						u.Kids = nil
						for k := 0; k <= 2; k++ {
							if k == protoPos {
								u.Kids = append(u.Kids, doc.N("Protocol", "json-rpc-2.0"))
							}
							if k < 2 {
								u.Kids = append(u.Kids, ms[k])
							}
						}
						nodes := append([]*doc.Node{doc.Jsight()}, fillerTypes(e)...)
						nodes = append(nodes, u, doc.N("TYPE", "@after", "any"))
						p := "$.interactions.json-rpc-2.0 do.it /rpc"
						e[keysPath("interactions")] = strings.Join(ids, "|")
						e[p+".id"] = "json-rpc-2.0 do.it /rpc"
						e[p+".protocol"] = "json-rpc-2.0"
						e[p+".method"] = "do.it"
						e[p+".path"] = "/rpc"
						e[p+".httpMethod"] = absent
						setOrAbsent(e, p+".annotation", ann, "rpc note")
						setOrAbsent(e, p+".description", desc, "rpc text")
						if params {
							baByName("obj").digest(e, p+".params.schema")
						} else {
							e[p+".params"] = absent
						}
						if result {
							baByName("arr").digest(e, p+".result.schema")
						} else {
							e[p+".result"] = absent
						}
						e["$.interactions.json-rpc-2.0 other /rpc.method"] = "other"
						e["$.interactions.json-rpc-2.0 other /rpc.params"] = absent
						for _, style := range styles {
							judge(fmt.Sprintf("rpc paren=%v second=%v protocol-at=%d mask=%d order=%v style=%s", paren, second, protoPos, mask, perm, style), nodes, e, style)
						}
					}
					return true
				}) // the children of the method in every order
			}
		}
	}

	// (c) declarations
	for pos := 0; pos < 3; pos++ {
		place := func(decl ...*doc.Node) []*doc.Node {
			fill := []*doc.Node{doc.N("TYPE", "@f1", "any"), doc.N("TYPE", "@f2", "empty")}
			out := []*doc.Node{doc.Jsight()}
			out = append(out, fill[:pos]...)
			out = append(out, decl...)
			out = append(out, fill[pos:]...)
			return out
		}
		typeKeys := func(name string) string {
			k := []string{"@f1", "@f2"}
			k = append(k[:pos], append([]string{name}, k[pos:]...)...)
			return strings.Join(k, "|")
		}
		// INFO
		for mask := 1; mask < 8; mask++ {
			e := exp{}
			info := doc.N("INFO")
			t, v, d := mask&1 != 0, mask&2 != 0, mask&4 != 0
			if t {
				info.Kids = append(info.Kids, doc.N("Title", "\"My API title\""))
			}
			if v {
				info.Kids = append(info.Kids, doc.N("Version", "2.0.1"))
			}
			if d {
				info.Kids = append(info.Kids, doc.N("Description").WithBody("Line one\nLine two"))
			}
			info.Paren = pos == 1
			setOrAbsent(e, "$.info.title", t, "My API title")
			setOrAbsent(e, "$.info.version", v, "2.0.1")
			setOrAbsent(e, "$.info.description", d, "Line one\nLine two")
			e[keysPath("userTypes")] = "@f1|@f2"
			e[keysPath("interactions")] = ""
			judge(fmt.Sprintf("info mask=%d pos=%d", mask, pos), place(info), e, "")
		}
		// SERVER
		for _, ann := range []bool{false, true} {
			e := exp{}
			s := doc.N("SERVER", "@prod").WithKids(doc.N("BaseUrl", "\"https://api.example.com/v1/\""))
			s2 := doc.N("SERVER", "@test").WithAnn("second").WithKids(doc.N("BaseUrl", "\"http://t/\""))
			if ann {
				s.Ann = "Production server"
			}
			e[keysPath("servers")] = "@prod|@test"
			setOrAbsent(e, "$.servers.@prod.annotation", ann, "Production server")
			e["$.servers.@prod.baseUrl"] = "https://api.example.com/v1/"
			e["$.servers.@test.annotation"] = "second"
			e["$.servers.@test.baseUrl"] = "http://t/"
			judge(fmt.Sprintf("server ann=%v pos=%d", ann, pos), place(s, s2), e, "")
		}
		// TYPE of every notation / body
		for _, b := range bodyAlphabet() {
			for _, ann := range []bool{false, true} {
				e := exp{}
				n := doc.N("TYPE", "@x")
				switch b.nota {
				case "regex":
					n.Params = append(n.Params, "regex")
					n.Body = b.body
				case "any", "empty":
					n.Params = append(n.Params, b.param)
				default:
					n.Body = b.body
				}
				if ann {
					n.Ann = "type note"
				}
				decl := []*doc.Node{n}
				keys := typeKeys("@x")
				if strings.Contains(b.body, "@t") || strings.Contains(b.body, "@u") {
					// referenced types are declared after the use
					decl = append(decl, doc.N("TYPE", "@t").WithBody("{}"), doc.N("TYPE", "@u").WithBody("1"))
					keys = typeKeys("@x|@t|@u")
				}
				e[keysPath("userTypes")] = keys
				setOrAbsent(e, "$.userTypes.@x.annotation", ann, "type note")
				b.digest(e, "$.userTypes.@x.schema")
				judge(fmt.Sprintf("type %s ann=%v pos=%d", b.name, ann, pos), place(decl...), e, "")
			}
		}
		// ENUM
		{
			e := exp{}
			en := doc.N("ENUM", "@colour").WithAnn("Colours").WithBody("[\n  \"red\", // warm\n  2,\n  true,\n  null\n]")
			e[keysPath("userEnums")] = "@colour"
			e["$.userEnums.@colour.annotation"] = "Colours"
			e["$.userEnums.@colour.value.tokenType"] = "array"
			e["$.userEnums.@colour.value.children.#len"] = "4"
			e["$.userEnums.@colour.value.children[0].tokenType"] = "string"
			e["$.userEnums.@colour.value.children[0].scalarValue"] = "red"
			e["$.userEnums.@colour.value.children[0].note"] = "warm"
			e["$.userEnums.@colour.value.children[1].tokenType"] = "number"
			e["$.userEnums.@colour.value.children[1].scalarValue"] = "2"
			e["$.userEnums.@colour.value.children[2].tokenType"] = "boolean"
			e["$.userEnums.@colour.value.children[2].scalarValue"] = "true"
			e["$.userEnums.@colour.value.children[3].tokenType"] = "null"
			e[keysPath("userTypes")] = "@f1|@f2"
			judge(fmt.Sprintf("enum pos=%d", pos), place(en), e, "")
		}
	}
}

func setOrAbsent(e exp, path string, present bool, val string) {
	if present {
		e[path] = val
	} else {
		e[path] = absent
	}
}

func sigHead(label string) string {
	f := strings.Fields(label)
	if len(f) >= 2 && (f[0] == "http" || f[0] == "type") {
		return f[0] + "-" + f[1]
	}
	return f[0]
}

// firstPath extracts the field a mismatch is about, without indices of the focus.
func firstPath(d string) string {
	f := strings.Fields(d)
	if len(f) == 0 {
		return ""
	}
	p := f[0]
	if i := strings.LastIndex(p, "/focus"); i >= 0 {
		p = p[i+6:]
	} else if i := strings.LastIndex(p, "/rpc"); i >= 0 {
		p = p[i+4:]
	}
	return p
}

func b2i(b bool) int {
	if b {
		return 1
	}
	return 0
}
