package checks

import (
	"fmt"
	"sort"
	"strings"
	"time"

	"verif/internal/doc"
	"verif/internal/drv"
	"verif/internal/fw"
	"verif/internal/jsonx"
)

func init() {
	fw.Register(&fw.Check{
		ID: "C20", Level: "model_checking",
		Rule:   "accepted documents = JSIGHT + closed selections of 1..2 (quick) / 1..3 (thorough) pool blocks (self-delimiting rendering); each x every fresh declaration (TYPE of each notation, ENUM, SERVER, TAG, unused MACRO, method on an unrelated path, URL block on an unrelated path, JSON-RPC block) x every insertion point between top-level declarations; and deletion of every top-level declaration nothing refers to; non-trivial = accepted base; distinct = distinct edited texts ; fresh types inheriting from / referring to existing types; unused macros holding declarations or pasting a fresh macro; every selection also in reversed declaration order",
		Assume: []string{"entries are compared as canonical JSON text per collection key; interaction-id lists in tag entries as sets (C10)"},
		Run:    runC20, QuickCap: 6 * time.Minute, ThoroughCap: 40 * time.Minute,
	})
}

type fresh struct {
	name  string
	nodes func() []*doc.Node
	adds  []string // entry keys expected to appear
	needs string   // a name the document must already declare (the fresh declaration refers to it)
}

// heirOf: a fresh type that inherits from an existing object type.
func heirOf(base string) fresh {
	name := "@freshheir_" + base[1:]
	return fresh{name: "type-heir-of-" + base[1:], nodes: func() []*doc.Node {
		return []*doc.Node{doc.N("TYPE", name).WithBody("{ // {allOf: \"" + base + "\"}\n  \"fhx\": 1\n}")}
	}, adds: []string{"userTypes/" + name}, needs: base}
}

func freshDecls() []fresh {
	return []fresh{
		{"type-jsight", func() []*doc.Node { return []*doc.Node{doc.N("TYPE", "@fresh1").WithBody("{\n  \"f\": 1\n}")} }, []string{"userTypes/@fresh1"}, ""},
		{"type-regex", func() []*doc.Node { return []*doc.Node{doc.N("TYPE", "@fresh2", "regex").WithBody("/z/")} }, []string{"userTypes/@fresh2"}, ""},
		{"type-any", func() []*doc.Node { return []*doc.Node{doc.N("TYPE", "@fresh3", "any")} }, []string{"userTypes/@fresh3"}, ""},
		{"type-scalar", func() []*doc.Node {
			return []*doc.Node{doc.N("TYPE", "@fresh4").WithAnn("n").WithBody("12 // {min: 1}")}
		}, []string{"userTypes/@fresh4"}, ""},
		{"enum", func() []*doc.Node { return []*doc.Node{doc.N("ENUM", "@freshE").WithBody("[1, 2]")} }, []string{"userEnums/@freshE"}, ""},
		{"server", func() []*doc.Node {
			return []*doc.Node{doc.N("SERVER", "@freshS").WithParen().WithKids(doc.N("BaseUrl", "\"https://fresh/\""))}
		}, []string{"servers/@freshS"}, ""},
		{"tag", func() []*doc.Node { return []*doc.Node{doc.N("TAG", "@freshT").WithAnn("Fresh")} }, []string{"tags/@freshT"}, ""},
		{"macro", func() []*doc.Node {
			return []*doc.Node{doc.N("MACRO", "@freshM").WithParen().WithKids(doc.N("200", "any"))}
		}, nil, ""},
		// an unused macro adds nothing whatever it holds: declarations of every named kind, an
		// interaction, a PASTE of another (fresh) macro
		{"macro-holding-declarations", func() []*doc.Node {
			return []*doc.Node{doc.N("MACRO", "@freshM2").WithParen().WithKids(
				doc.N("ENUM", "@freshME").WithBody("[1, 2]"),
				doc.N("TYPE", "@freshMT").WithBody("{\n  \"k\": 1 // {enum: @freshME}\n}"),
				doc.N("GET", "/freshmacro/x").WithParen().WithKids(doc.N("200", "@freshMT")))}
		}, nil, ""},
		{"macro-pasting-a-macro", func() []*doc.Node {
			return []*doc.Node{
				doc.N("MACRO", "@freshM3").WithParen().WithKids(doc.N("ENUM", "@freshME3").WithBody("[\"a\"]")),
				doc.N("MACRO", "@freshM4").WithParen().WithKids(doc.N("PASTE", "@freshM3"))}
		}, nil, ""},
		{"method", func() []*doc.Node {
			return []*doc.Node{doc.N("GET", "/freshpath/x").WithParen().WithKids(doc.N("200", "any"))}
		}, []string{"interactions/http GET /freshpath/x", "tags/@freshpath"}, ""},
		// a method on an unrelated path whose parameters have the names other paths use too
		{"method-with-path-parameters", func() []*doc.Node {
			return []*doc.Node{doc.N("GET", "/freshp/{id}/{a}").WithParen().WithKids(
				doc.N("Path").WithBody("{\n  \"id\": 77, // fresh id\n  \"a\": \"fresh\"\n}"), doc.N("200", "any"))}
		}, []string{"interactions/http GET /freshp/{id}/{a}", "tags/@freshp"}, ""},
		{"method-with-path-parameter-id", func() []*doc.Node {
			return []*doc.Node{doc.N("GET", "/freshq/{id}").WithParen().WithKids(
				doc.N("Path").WithBody("{\n  \"id\": 78 // another fresh id\n}"), doc.N("200", "any"))}
		}, []string{"interactions/http GET /freshq/{id}", "tags/@freshq"}, ""},
		{"method-with-path-parameters-a-b", func() []*doc.Node {
			return []*doc.Node{doc.N("GET", "/freshr/{a}/{b}").WithParen().WithKids(
				doc.N("Path").WithBody("{\n  \"a\": \"fa\",\n  \"b\": \"fb\"\n}"), doc.N("200", "any"))}
		}, []string{"interactions/http GET /freshr/{a}/{b}", "tags/@freshr"}, ""},
		// a fresh method may USE what the document declares: its Path is a reference to an existing type
		{name: "method-with-path-from-existing-type", nodes: func() []*doc.Node {
			return []*doc.Node{doc.N("GET", "/freshopt/{oid}").WithParen().WithKids(doc.N("Path").WithBody("@opt"), doc.N("200", "@opt"))}
		}, adds: []string{"interactions/http GET /freshopt/{oid}", "tags/@freshopt"}, needs: "@opt"},
		// a fresh type may INHERIT from what the document declares: an heir of a base, of an heir, and
		// a fresh type / response that merely refers to an existing type
		{name: "type-heir-of-base", nodes: func() []*doc.Node {
			return []*doc.Node{doc.N("TYPE", "@freshheir1").WithBody("{ // {allOf: \"@a\"}\n  \"fh1\": 1\n}")}
		}, adds: []string{"userTypes/@freshheir1"}, needs: "@a"},
		{name: "type-heir-of-heir", nodes: func() []*doc.Node {
			return []*doc.Node{doc.N("TYPE", "@freshheir2").WithBody("{ // {allOf: \"@h\"}\n  \"fh2\": 1\n}")}
		}, adds: []string{"userTypes/@freshheir2"}, needs: "@h"},
		// an heir of every other object type of the pool (a type with an inheriting nested object, the
		// end of a chain, an empty intermediate base, a type with a key shortcut)
		heirOf("@nest"), heirOf("@hh"), heirOf("@mid"), heirOf("@leaf"), heirOf("@ksm"), heirOf("@kst"),
		{name: "type-referring-to-heir", nodes: func() []*doc.Node {
			return []*doc.Node{doc.N("TYPE", "@freshref").WithBody("{\n  \"r\": @h\n}")}
		}, adds: []string{"userTypes/@freshref"}, needs: "@h"},
		// a fresh URL block that pastes a macro the document already pastes elsewhere
		{name: "url-pasting-existing-macro", nodes: func() []*doc.Node {
			return []*doc.Node{doc.N("URL", "/freshitm/{id}").WithParen().WithKids(doc.N("PASTE", "@item"))}
		}, adds: []string{"interactions/http GET /freshitm/{id}", "tags/@freshitm"}, needs: "macro:@item"},
		{"url", func() []*doc.Node {
			return []*doc.Node{doc.N("URL", "/freshurl").WithParen().WithKids(doc.N("POST").WithKids(doc.N("Request", "any"), doc.N("201", "empty")))}
		}, []string{"interactions/http POST /freshurl", "tags/@freshurl"}, ""},
		{"rpc", func() []*doc.Node {
			return []*doc.Node{doc.N("URL", "/freshrpc").WithParen().WithKids(doc.N("Protocol", "json-rpc-2.0"), doc.N("Method", "m1"))}
		}, []string{"interactions/json-rpc-2.0 m1 /freshrpc", "tags/@freshrpc"}, ""},
	}
}

// localityDiff checks new == old + exactly adds (or old == new + exactly removed).
func localityDiff(old, nw map[string]string, adds []string) string {
	want := map[string]bool{}
	for _, a := range adds {
		want[a] = true
	}
	var ds []string
	ids := map[string]bool{}
	for _, a := range adds {
		if strings.HasPrefix(a, "interactions/") {
			ids[strings.TrimPrefix(a, "interactions/")] = true
		}
	}
	for k, v := range old {
		nv, ok := nw[k]
		if ok && nv != v && strings.HasPrefix(k, "tags/") && len(ids) > 0 {
			// a tag entry lists the interactions that carry it: the added/removed interaction's
			// own id in that list is part of "its entry"
			v, nv = withoutIDs(v, ids), withoutIDs(nv, ids)
		}
		if !ok {
			ds = append(ds, "entry disappeared: "+k)
		} else if nv != v {
			ds = append(ds, "unrelated entry changed: "+k+" "+firstDiff(v, nv))
		}
	}
	for k := range nw {
		if _, ok := old[k]; !ok && !want[k] {
			ds = append(ds, "unexpected new entry: "+k)
		}
	}
	for a := range want {
		if _, ok := nw[a]; !ok {
			ds = append(ds, "expected new entry missing: "+a)
		}
	}
	sort.Strings(ds)
	if len(ds) > 3 {
		ds = ds[:3]
	}
	return strings.Join(ds, "; ")
}

// corpusC20Hook runs the same oracle over the repository's fixtures (set in the verif build).
var corpusC20Hook func(c *fw.Ctx)

func runC20(c *fw.Ctx) {
	if corpusC20Hook != nil {
		corpusC20Hook(c)
	}
	seen := map[string]bool{}
	fr := freshDecls()
	body := func(name string, blocks []doc.Block) {
		if c.Expired() {
			return
		}
		nodes := selfDelimit(doc.Assemble(blocks))
		key := doc.Text(nodes)
		if seen[key] {
			return
		}
		seen[key] = true
		var base drv.Outcome
		var baseE map[string]string
		have := false
		getBase := func() bool {
			if !have {
				base = run1(key)
				have = true
				if base.OK() {
					baseE, _ = catalogEntries(base)
				}
			}
			return base.OK() && baseE != nil
		}
		judge := func(kind, what, text string, a, b map[string]string, adds []string, o drv.Outcome) {
			bad := ""
			if !o.OK() {
				if o.Crashed() {
					c.Count("skipped_crash", 1)
					return
				}
				bad = "edited document is rejected: " + o.Short()
			} else {
				e, err := catalogEntries(o)
				if err != nil {
					bad = "edited catalog unreadable: " + err.Error()
				} else if kind == "insert" {
					bad = localityDiff(baseE, e, adds)
				} else {
					bad = localityDiff(e, baseE, adds)
				}
			}
			if bad == "" {
				c.Sample(kind+" "+strings.SplitN(what, "@", 2)[0], 1, map[string]interface{}{"doc": name, "edit": what})
				return
			}
			if fw.Confirm(func() bool {
				o2 := run1(text)
				if !o2.OK() {
					return !o.OK()
				}
				e, _ := catalogEntries(o2)
				if kind == "insert" {
					return localityDiff(baseE, e, adds) != ""
				}
				return localityDiff(e, baseE, adds) != ""
			}) {
				sig := "C20:" + kind + ":" + strings.SplitN(what, "@", 2)[0] + ":" + firstWordsN(bad, 3)
				if o.OK() {
					// one known pattern is told apart from everything else by WHAT changes: the only change
					// outside the added / removed entries is an indirect allOf ancestor appearing in or
					// vanishing from the usedUserTypes list of an heir (the open C10 finding, seen from here)
					if e, err := catalogEntries(o); err == nil {
						small, big := baseE, e
						if kind != "insert" {
							small, big = e, baseE
						}
						cut := map[string]string{}
						for k := range small {
							if v, ok := big[k]; ok {
								cut[k] = v
							}
						}
						if len(cut) == len(small) && allOfAncestorLeakOnly(small, cut) {
							sig = "C20:usedUserTypes:allOf-ancestor-leak"
						}
					}
				}
				c.Violate("non-local-effect", sig, fmt.Sprintf("document %s, %s %s: %s", name, kind, what, bad),
					map[string]interface{}{"doc": name, "base_text": key, "edited_text": text})
			}
		}
		declares := func(name string) bool {
			for _, b := range blocks {
				for _, d := range b.Defines {
					if d == name {
						return true
					}
				}
			}
			return false
		}
		// fresh methods on paths that differ from a path of the document in letter case only, with
		// other parameter names: another resource, unrelated to the existing one
		frDoc := append([]fresh{}, fr...)
		seenTwin := map[string]bool{}
		doc.Walk(nodes, func(x *doc.Node, _ int, _ *doc.Node) {
			if (x.Kw != "URL" && !isMethod(x.Kw)) || len(x.Params) == 0 || !strings.Contains(x.Params[0], "{") {
				return
			}
			segs := strings.Split(strings.Trim(x.Params[0], "\"/"), "/")
			if len(segs) == 0 || strings.ToUpper(segs[0]) == strings.ToLower(segs[0]) || strings.Contains(segs[0], "{") {
				return
			}
			first := strings.ToUpper(segs[0])
			if first == segs[0] {
				first = strings.ToLower(segs[0])
			}
			twin := "/" + first
			for _, sg := range segs[1:] {
				if strings.HasPrefix(sg, "{") && strings.HasSuffix(sg, "}") {
					sg = "{zz" + sg[1:]
				}
				twin += "/" + sg
			}
			if seenTwin[twin] || len(seenTwin) >= 2 {
				return
			}
			seenTwin[twin] = true
			tw := twin
			frDoc = append(frDoc, fresh{name: "method-on-case-twin-path", nodes: func() []*doc.Node {
				return []*doc.Node{doc.N("GET", tw).WithParen().WithKids(doc.N("200", "any"))}
			}, adds: []string{"interactions/http GET " + tw, "tags/@" + first}})
		})
		// insertions (self-delimiting rendering)
		for _, f := range frDoc {
			if f.needs != "" && !declares(f.needs) {
				continue
			}
			for pos := 1; pos <= len(nodes); pos++ {
				if !c.Next() {
					continue
				}
				if !getBase() {
					continue
				}
				c.Count("evaluations", 1)
				ed := append([]*doc.Node{}, nodes[:pos]...)
				ed = append(ed, f.nodes()...)
				ed = append(ed, nodes[pos:]...)
				text := doc.Text(ed)
				c.Describe(name + " insert " + f.name + fmt.Sprint(pos))
				c.Distinct(text)
				judge("insert", fmt.Sprintf("%s@%d", f.name, pos), text, nil, nil, f.adds, run1(text))
			}
		}
		// insertions into the plain (implicit-context) rendering, the fresh declaration written with
		// a space or a tab after its keyword. Every fresh kind is a top-level kind that no directive
		// but MACRO admits, and macros are parenthesised in the pool, so the insertion is still
		// between top-level blocks.
		plain := doc.Assemble(blocks)
		plainKey := doc.Text(plain)
		var plainBase drv.Outcome
		var plainE map[string]string
		havePlain := false
		for _, f := range fr {
			if f.needs != "" && !declares(f.needs) {
				continue
			}
			for pos := 1; pos <= len(plain); pos++ {
				for _, sep := range []string{" ", "\t"} {
					if !c.Next() {
						continue
					}
					if !havePlain {
						havePlain = true
						plainBase = run1(plainKey)
						if plainBase.OK() {
							plainE, _ = catalogEntries(plainBase)
						}
					}
					if !plainBase.OK() || plainE == nil {
						continue
					}
					c.Count("evaluations", 1)
					ft := doc.Text(f.nodes())
					if sep == "\t" {
						ft = strings.Replace(ft, " ", "\t", 1)
					}
					text := doc.Text(plain[:pos]) + ft + doc.Text(plain[pos:])
					c.Distinct(text)
					o := run1(text)
					saveE, saveKey := baseE, key
					baseE, key = plainE, plainKey
					judge("insert", fmt.Sprintf("%s-plain%q@%d", f.name, sep, pos), text, nil, nil, f.adds, o)
					baseE, key = saveE, saveKey
				}
			}
		}
		// deletions of declarations nothing refers to
		for bi, b := range blocks {
			needed := false
			for bj, o := range blocks {
				if bi == bj {
					continue
				}
				for _, n := range o.Needs {
					for _, d := range b.Defines {
						if n == d {
							needed = true
						}
					}
				}
				// a declared tag is also referred to - by name - by every interaction whose automatic
				// tag has that name (TAG @cats and GET /cats share the entry tags/@cats)
				for _, d := range b.Defines {
					if !strings.HasPrefix(d, "tag:@") {
						continue
					}
					for _, od := range o.Defines {
						if i := strings.Index(od, ":/"); i >= 0 {
							seg := strings.SplitN(strings.TrimPrefix(od[i+1:], "/"), "/", 2)[0]
							if "@"+seg == strings.TrimPrefix(d, "tag:") {
								needed = true
							}
						}
					}
				}
			}
			if needed {
				continue
			}
			if !c.Next() {
				continue
			}
			if !getBase() {
				continue
			}
			c.Count("evaluations", 1)
			rest := append([]doc.Block{}, blocks[:bi]...)
			rest = append(rest, blocks[bi+1:]...)
			text := doc.Text(selfDelimit(doc.Assemble(rest)))
			c.Distinct(text)
			o := run1(text)
			// what must disappear: every entry of base that is absent from the smaller document is
			// attributed to the deleted block only if it is one of the block's own names
			var removed []string
			if o.OK() {
				e, _ := catalogEntries(o)
				for k := range baseE {
					if _, ok := e[k]; !ok {
						removed = append(removed, k)
					}
				}
				sort.Strings(removed)
				ok := true
				for _, r := range removed {
					if !ownedBy(b, r) {
						ok = false
					}
				}
				if !ok {
					removed = nil // let localityDiff report the unexpected disappearance
				}
			}
			judge("delete", fmt.Sprintf("%s@%d", b.Name, bi), text, nil, nil, removed, o)
		}
	}
	docSets(!c.Quick(), func(name string, blocks []doc.Block) {
		body(name, blocks)
		// the same selection with its declarations in the reverse order (everything is used before
		// it is declared): an accepted document like any other
		if len(blocks) >= 2 {
			rev := make([]doc.Block, len(blocks))
			for i, b := range blocks {
				rev[len(blocks)-1-i] = b
			}
			body(name+" reversed", rev)
		}
	})
}

// withoutIDs removes the given interaction ids from a tag entry's interaction lists (dropping
// groups that become empty).
func withoutIDs(tagJSON string, ids map[string]bool) string {
	v, _, err := jsonx.Parse([]byte(tagJSON))
	if err != nil || v.Kind != jsonx.Obj {
		return tagJSON
	}
	for i, k := range v.Keys {
		if k != "interactionGroups" || v.Vals[i].Kind != jsonx.Arr {
			continue
		}
		ng := &jsonx.V{Kind: jsonx.Arr}
		for _, g := range v.Vals[i].A {
			keep := true
			for j, gk := range g.Keys {
				if gk == "interactions" && g.Vals[j].Kind == jsonx.Arr {
					nl := &jsonx.V{Kind: jsonx.Arr}
					for _, x := range g.Vals[j].A {
						if !ids[x.S] {
							nl.A = append(nl.A, x)
						}
					}
					g.Vals[j] = nl
					if len(nl.A) == 0 {
						keep = false
					}
				}
			}
			if keep {
				ng.A = append(ng.A, g)
			}
		}
		v.Vals[i] = ng
	}
	return v.Canon()
}

// ownedBy reports whether a catalog entry key belongs to what a block declares.
func ownedBy(b doc.Block, entry string) bool {
	for _, d := range b.Defines {
		switch {
		case strings.HasPrefix(d, "@") && entry == "userTypes/"+d:
			return true
		case strings.HasPrefix(d, "enum:") && entry == "userEnums/"+strings.TrimPrefix(d, "enum:"):
			return true
		case strings.HasPrefix(d, "tag:") && entry == "tags/"+strings.TrimPrefix(d, "tag:"):
			return true
		case strings.HasPrefix(d, "server:") && entry == "servers/"+strings.TrimPrefix(d, "server:"):
			return true
		case strings.HasPrefix(d, "tagentry:") && entry == "tags/"+strings.TrimPrefix(d, "tagentry:"):
			return true // the automatic tag of a first segment that needs escaping
		case d == "info" && strings.HasPrefix(entry, "top/info"):
			return true
		case strings.HasPrefix(d, "path:"):
			p := strings.TrimPrefix(d, "path:")
			if strings.HasPrefix(entry, "interactions/") && strings.Contains(entry, " "+p) {
				return true
			}
			if entry == "tags/@"+strings.TrimPrefix(p, "/") {
				return true
			}
		}
	}
	return false
}
