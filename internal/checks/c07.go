package checks

import (
	"fmt"
	"github.com/jsightapi/jsight-api-go-library/directive"
	"math/bits"
	"strings"
	"time"

	"verif/internal/doc"
	"verif/internal/fw"
)

func init() {
	fw.Register(&fw.Check{
		ID: "C07", Level: "model_checking",
		Rule: "(a) every host of PASTE (top level, URL, HTTP method, request, response, INFO, SERVER) x every macro body admitted there x definition before/after use x nesting depth 1..3 x explicit/implicit host context, plus every pool document that uses macros: if accepted, the inlined document must be accepted with byte-identical JSON, and an extra never-pasted macro must change nothing; (b) ALL paste graphs over <= 4 macros (every subset of the n*n PASTE edges; thorough: also 5 macros with <= 6 edges) x definition order x used/unused: cyclic, undefined and duplicate cases must be rejected (a crash or overflow is a violation), acyclic ones must equal their inlining; non-trivial = document with at least one PASTE; distinct = distinct texts ; E-REFCAT (see C04): on every fixture, pool selection and generated macro document, the implementation's forest after macro expansion equals the reference resolver's forest of the token stream in which every PASTE is replaced by the body of its macro; PASTE of an undefined macro, duplicate macro and macro cycles seen by the reference => rejected",
		Run:  runC07, QuickCap: 6 * time.Minute, ThoroughCap: 40 * time.Minute,
	})
}

type pasteHost struct {
	name   string
	bodies [][]*doc.Node
	// build places PASTE @m (given as node) in the host and returns the top-level nodes
	build func(paste *doc.Node, paren bool) []*doc.Node
}

func pasteHosts() []pasteHost {
	hosts := pasteHostsBase()
	n := doc.N
	// what a pasted body leaves open is open for what follows the PASTE: macro bodies ending in an
	// open directive, pasted into a URL block / a method, followed by one directive of every kind
	// that may follow there, and then by another method
	followers := []func() *doc.Node{
		func() *doc.Node { return n("Tags", "@ft") },
		func() *doc.Node { return n("Path").WithBody("{\n  \"id\": 1\n}") },
		func() *doc.Node { return n("404", "any") },
		func() *doc.Node { return n("Description").WithBody("follower text") },
		func() *doc.Node { return n("Query").WithBody("{\n  \"q\": 1\n}") },
		func() *doc.Node { return n("Request", "any") },
		func() *doc.Node { return n("Headers").WithBody("{\n  \"H\": \"v\"\n}") },
		func() *doc.Node { return n("Body", "any") },
		func() *doc.Node { return n("PUT").WithKids(n("200", "any")) },
		func() *doc.Node { return n("PUT", "/ft/other").WithKids(n("200", "any")) },
		func() *doc.Node { return n("TYPE", "@ftt", "any") },
	}
	for fi, f := range followers {
		f := f
		hosts = append(hosts, pasteHost{fmt.Sprintf("url-tail%d", fi), [][]*doc.Node{
			{n("GET").WithKids(n("200", "any"))},
			{n("GET")},
			{n("POST").WithKids(n("Request").WithKids(n("Body", "any")))},
			{n("GET").WithKids(n("200").WithKids(n("Body", "any")))},
		}, func(p *doc.Node, paren bool) []*doc.Node {
			u := n("URL", "/ft/{id}").WithKids(p, f(), n("DELETE").WithKids(n("204", "empty")))
			u.Paren = paren
			return []*doc.Node{n("TAG", "@ft"), u, n("TYPE", "@after", "empty")}
		}})
	}
	return hosts
}

func pasteHostsBase() []pasteHost {
	n := doc.N
	return []pasteHost{
		{"top", [][]*doc.Node{
			{n("TYPE", "@m1").WithBody("{\n  \"z\": 1\n}")},
			{n("GET", "/mp").WithParen().WithKids(n("200", "any"))},
			{n("TYPE", "@m1", "any"), n("URL", "/mu").WithParen().WithKids(n("GET").WithKids(n("200", "@m1")))},
			{n("SERVER", "@ms").WithParen().WithKids(n("BaseUrl", "\"http://m/\""))},
			{n("ENUM", "@me").WithBody("[\"x\", \"y\"]"), n("TYPE", "@m1").WithBody("{\n  \"k\": \"x\" // {enum: @me}\n}")},
			{n("TAG", "@mtag").WithAnn("T"), n("GET", "/tg").WithParen().WithKids(n("Tags", "@mtag"), n("200", "any"))},
			// a URL block that is not parenthesised, left by the method with its own path that follows it
			{n("URL", "/mu2").WithKids(n("GET").WithKids(n("200", "any"))), n("POST", "/mp2").WithKids(n("201", "empty"))},
		}, func(p *doc.Node, _ bool) []*doc.Node {
			return []*doc.Node{n("TYPE", "@before", "any"), p, n("TYPE", "@after", "empty")}
		}},
		{"top-twice", [][]*doc.Node{
			{n("ENUM", "@me").WithBody("[\"x\", \"y\"]")},
			{n("TYPE", "@m1", "any")},
			{n("TAG", "@mtag")},
			{n("GET", "/twice").WithParen().WithKids(n("200", "any"))},
		}, func(p *doc.Node, _ bool) []*doc.Node {
			return []*doc.Node{p, n("TYPE", "@between", "any"), p.Clone()}
		}},
		{"method-twice", [][]*doc.Node{
			{n("404", "any")},
			{n("Query").WithBody("{\n  \"q\": 1\n}")},
		}, func(p *doc.Node, paren bool) []*doc.Node {
			a := n("POST", "/m1").WithKids(n("500", "empty"), p)
			b := n("POST", "/m2").WithKids(p.Clone(), n("500", "empty"))
			a.Paren, b.Paren = true, paren
			return []*doc.Node{a, b}
		}},
		{"url", [][]*doc.Node{
			{n("GET").WithParen().WithKids(n("200", "any"))},
			{n("POST").WithKids(n("201", "empty")), n("DELETE").WithKids(n("204", "empty"))},
			{n("Path").WithBody("{\n  \"id\": 1\n}")},
		}, func(p *doc.Node, paren bool) []*doc.Node {
			u := n("URL", "/u/{id}").WithKids(n("PUT").WithParen().WithKids(n("200", "any")), p)
			u.Paren = paren
			return []*doc.Node{u, n("TYPE", "@after", "empty")}
		}},
		{"method", [][]*doc.Node{
			{n("200", "any")},
			{n("Query").WithBody("{\n  \"q\": 1\n}"), n("404", "any")},
			{n("Request", "any")},
			{n("Description").WithBody("pasted text"), n("200").WithBody("{\n  \"ok\": true\n}")},
		}, func(p *doc.Node, paren bool) []*doc.Node {
			m := n("POST", "/m").WithKids(n("500", "empty"), p)
			m.Paren = paren
			return []*doc.Node{m, n("TYPE", "@after", "empty")}
		}},
		{"request", [][]*doc.Node{
			{n("Body", "any")},
			{n("Headers").WithBody("{\n  \"H\": \"v\"\n}"), n("Body").WithBody("{\n  \"b\": 1\n}")},
		}, func(p *doc.Node, paren bool) []*doc.Node {
			r := n("Request").WithKids(p)
			r.Paren = paren
			return []*doc.Node{n("POST", "/r").WithParen().WithKids(r, n("200", "any"))}
		}},
		{"response", [][]*doc.Node{
			{n("Body", "empty")},
			{n("Headers").WithBody("{\n  \"H\": \"v\"\n}"), n("Body", "regex").WithBody("/ok/")},
		}, func(p *doc.Node, paren bool) []*doc.Node {
			r := n("200").WithKids(p)
			r.Paren = paren
			return []*doc.Node{n("GET", "/s").WithParen().WithKids(r, n("404", "any"))}
		}},
		{"info", [][]*doc.Node{
			{n("Title", "\"T\"")},
			{n("Version", "2"), n("Description").WithBody("from macro")},
		}, func(p *doc.Node, paren bool) []*doc.Node {
			i := n("INFO").WithKids(p)
			i.Paren = paren
			return []*doc.Node{i, n("TYPE", "@after", "empty")}
		}},
		{"server", [][]*doc.Node{
			{n("BaseUrl", "\"http://s/\"")},
		}, func(p *doc.Node, paren bool) []*doc.Node {
			s := n("SERVER", "@srv").WithKids(p)
			s.Paren = paren
			return []*doc.Node{s, n("TYPE", "@after", "empty")}
		}},
	}
}

// corpusC07Hook inlines the macros of the repository's fixtures (set in the verif build).
var corpusC07Hook func(c *fw.Ctx)

func runC07(c *fw.Ctx) {
	if refcatHook != nil {
		refcatHook(c, "C07")
	}
	if corpusC07Hook != nil {
		corpusC07Hook(c)
	}
	compare := func(label string, nodes []*doc.Node) {
		if !c.Next() {
			return
		}
		c.Describe(label)
		c.Count("evaluations", 1)
		text := doc.Text(nodes)
		o := run1(text)
		if o.Crashed() {
			c.Count("skipped_crash", 1)
			return
		}
		c.Distinct(text)
		if refcatAlso != nil {
			refcatAlso(c, "C07", label, text, o) // the forest after expansion is the reference resolver's
		}
		if !o.OK() {
			// the property is conditional on acceptance; the converse is not stated
			c.Count("rejected_with_macros", 1)
			return
		}
		inl, ok := doc.Inline(nodes)
		if !ok {
			return
		}
		it := doc.Text(inl)
		oi := run1(it)
		if oi.Crashed() {
			c.Count("skipped_crash", 1)
			return
		}
		if oi.OK() && oi.JSON == o.JSON {
			// the same two documents with CRLF line ends (free text is content, but it is the same
			// content on both sides): still equal
			tc, ic := strings.ReplaceAll(text, "\n", "\r\n"), strings.ReplaceAll(it, "\n", "\r\n")
			oc, oic := run1(tc), run1(ic)
			if oc.OK() && !oc.Crashed() && !oic.Crashed() && !(oic.OK() && oic.JSON == oc.JSON) {
				if fw.Confirm(func() bool { a, b := run1(tc), run1(ic); return a.OK() && !(b.OK() && a.JSON == b.JSON) }) {
					c.Violate("paste-not-inline", "C07:inline-crlf:"+label[:indexOr(label, ' ')], fmt.Sprintf("%s with CRLF line ends: with macros %s, inlined %s; %s", label, oc.Short(), oic.Short(), firstDiff(oc.JSON, oic.JSON)), map[string]interface{}{"with_macros": tc, "inlined": ic})
				}
				return
			}
			c.Sample("inline-equal", 3, map[string]interface{}{"label": label, "text": text})
			return
		}
		if fw.Confirm(func() bool { a, b := run1(text), run1(it); return a.OK() && !(b.OK() && a.JSON == b.JSON) }) {
			det := fmt.Sprintf("%s: with macros %s, inlined %s", label, o.Short(), oi.Short())
			if oi.OK() {
				det += "; JSON differs: " + firstDiff(o.JSON, oi.JSON)
			}
			c.Violate("paste-not-inline", "C07:inline:"+label[:indexOr(label, ' ')], det, map[string]interface{}{"with_macros": text, "inlined": it})
		}
	}

	// (a) hosts x bodies x order x nesting x paren
	for _, h := range pasteHosts() {
		for bi, body := range h.bodies {
			for _, after := range []bool{false, true} {
				for depth := 1; depth <= 3; depth++ {
					for _, paren := range []bool{false, true} {
						for _, holderParen := range []bool{true, false} {
							if !holderParen && !after {
								continue // a macro without parentheses takes everything that follows: it must stand last
							}
							var macros []*doc.Node
							// @m1 holds the body; @m2 pastes @m1; @m3 pastes @m2
							holder := doc.N("MACRO", "@mac1").WithKids(doc.CloneAll(body)...)
							holder.Paren = holderParen
							for d := 2; d <= depth; d++ {
								macros = append(macros, doc.N("MACRO", fmt.Sprintf("@mac%d", d)).WithParen().WithKids(doc.N("PASTE", fmt.Sprintf("@mac%d", d-1))))
							}
							use := h.build(doc.N("PASTE", fmt.Sprintf("@mac%d", depth)), paren)
							var nodes []*doc.Node
							nodes = append(nodes, doc.Jsight())
							if after {
								nodes = append(nodes, use...)
								// defined after use; the macro that holds the body last
								nodes = append(nodes, macros...)
								nodes = append(nodes, holder)
							} else {
								nodes = append(nodes, holder)
								nodes = append(nodes, macros...)
								nodes = append(nodes, use...)
							}
							label := fmt.Sprintf("%s body%d after=%v depth=%d paren=%v macro-paren=%v", h.name, bi, after, depth, paren, holderParen)
							compare(label, nodes)
							if !holderParen {
								continue
							}
							// the same with an extra never-pasted macro: nothing may change
							if c.Next() {
								c.Count("evaluations", 1)
								extra := append(doc.CloneAll(nodes), doc.N("MACRO", "@unused").WithParen().WithKids(
									doc.N("ENUM", "@neverE").WithBody("[1, 2]"),
									doc.N("TYPE", "@neverT").WithBody("{\n  \"k\": 1 // {enum: @neverE}\n}"),
									doc.N("GET", "/never").WithKids(doc.N("200", "any"))))
								a, b := run1(doc.Text(nodes)), run1(doc.Text(extra))
								if j, s := sameResult(a, b); j && !s {
									if fw.Confirm(func() bool { _, s := sameResult(run1(doc.Text(nodes)), run1(doc.Text(extra))); return !s }) {
										c.Violate("unused-macro-contributes", "C07:unused-macro", fmt.Sprintf("%s: adding a never-pasted macro changes the result: %s vs %s", label, a.Short(), b.Short()),
											map[string]interface{}{"without": doc.Text(nodes), "with": doc.Text(extra)})
									}
								}
							}
						}
					}
				}
			}
		}
	}
	// (a2) a never-pasted macro contributes nothing, whatever its body: every body of every host,
	// the macro parenthesised or not (standing last)
	for _, h := range pasteHosts() {
		for bi, body := range h.bodies {
			for _, mp := range []bool{true, false} {
				admitted := true
				for _, bn := range body {
					if t, err := directive.NewDirectiveType(bn.Kw); err != nil || !directive.Macro.IsAllowedForDirectiveContext(t) {
						admitted = false // (the library's public admissibility table, as in C06)
					}
				}
				if !admitted {
					continue
				}
				if !c.Next() {
					continue
				}
				c.Count("evaluations", 1)
				baseNodes := []*doc.Node{doc.Jsight(), doc.N("TYPE", "@keep", "any"), doc.N("GET", "/keep").WithParen().WithKids(doc.N("200", "any"))}
				m := doc.N("MACRO", "@unused").WithKids(doc.CloneAll(body)...)
				m.Paren = mp
				with := append(doc.CloneAll(baseNodes), m)
				ta, tb := doc.Text(baseNodes), doc.Text(with)
				c.Distinct(tb)
				a, b := run1(ta), run1(tb)
				if !a.OK() {
					c.Note("harness_fault", "C07 (a2): the base document is not accepted: "+a.Short())
					c.NotExhaustive("vacuous base document")
					continue
				}
				if j, same := sameResult(a, b); j && !same {
					if fw.Confirm(func() bool { _, s2 := sameResult(run1(ta), run1(tb)); return !s2 }) {
						c.Violate("unused-macro-contributes", "C07:unused-macro", fmt.Sprintf("%s body%d macro-paren=%v: adding a never-pasted macro changes the result: %s vs %s", h.name, bi, mp, a.Short(), b.Short()),
							map[string]interface{}{"without": ta, "with": tb})
					}
				}
			}
		}
	}
	// pool documents that use macros
	docSets(!c.Quick(), func(name string, blocks []doc.Block) {
		nodes := doc.Assemble(blocks)
		if !doc.Has(nodes, "PASTE") {
			return
		}
		compare("pool "+name, nodes)
	})

	// (b) all paste graphs
	maxN := 4
	if !c.Quick() {
		maxN = 5 // five macros: every edge set with at most 6 PASTE edges
	}
	for n := 1; n <= maxN; n++ {
		edges := n * n
		for mask := 0; mask < 1<<uint(edges); mask++ {
			if c.Expired() {
				return
			}
			if n == 5 && bits.OnesCount(uint(mask)) > 6 {
				continue
			}
			adj := make([][]int, n)
			for e := 0; e < edges; e++ {
				if mask&(1<<uint(e)) != 0 {
					adj[e/n] = append(adj[e/n], e%n)
				}
			}
			cyclic := hasCycle(adj)
			for _, reversed := range []bool{false, true} {
				for _, used := range []bool{true, false} {
					if !c.Next() {
						continue
					}
					c.Count("evaluations", 1)
					var macros []*doc.Node
					for i := 0; i < n; i++ {
						m := doc.N("MACRO", fmt.Sprintf("@g%d", i)).WithParen().WithKids(doc.N(fmt.Sprintf("%d", 201+i), "any"))
						for _, j := range adj[i] {
							m.Kids = append(m.Kids, doc.N("PASTE", fmt.Sprintf("@g%d", j)))
						}
						macros = append(macros, m)
					}
					if reversed {
						for i, j := 0, len(macros)-1; i < j; i, j = i+1, j-1 {
							macros[i], macros[j] = macros[j], macros[i]
						}
					}
					host := doc.N("GET", "/g").WithParen().WithKids(doc.N("200", "any"))
					if used {
						host.Kids = append(host.Kids, doc.N("PASTE", "@g0"))
					}
					nodes := append([]*doc.Node{doc.Jsight()}, macros...)
					nodes = append(nodes, host)
					text := doc.Text(nodes)
					label := fmt.Sprintf("graph n=%d mask=%d rev=%v used=%v", n, mask, reversed, used)
					c.Describe(label + "\n" + text)
					c.Distinct(text)
					o := run1(text)
					if o.Crashed() {
						c.Count("skipped_crash", 1)
						continue
					}
					if cyclic {
						c.Count("cyclic_graphs", 1)
						if o.OK() {
							c.Violate("cycle-accepted", "C07:cycle-accepted", label+": a document with a cycle of macros is accepted", map[string]interface{}{"text": text})
						}
						continue
					}
					// acyclic: response codes may repeat through diamonds; whatever the verdict, it must equal the inlining's
					inl, ok := doc.Inline(nodes)
					if !ok {
						continue
					}
					oi := run1(doc.Text(inl))
					if o.OK() {
						if !(oi.OK() && oi.JSON == o.JSON) {
							c.Violate("paste-not-inline", "C07:inline:graph", fmt.Sprintf("%s: with macros %s, inlined %s", label, o.Short(), oi.Short()), map[string]interface{}{"with_macros": text, "inlined": doc.Text(inl)})
						}
					} else if oi.OK() {
						c.Count("rejected_with_macros_but_inlining_accepted", 1)
					}
				}
			}
		}
	}
	// undefined and duplicate macros
	for _, tc := range []struct {
		label string
		nodes []*doc.Node
	}{
		{"undefined", []*doc.Node{doc.Jsight(), doc.N("GET", "/x").WithParen().WithKids(doc.N("PASTE", "@nope"))}},
		{"undefined-in-macro-used", []*doc.Node{doc.Jsight(), doc.N("MACRO", "@a1").WithParen().WithKids(doc.N("PASTE", "@nope")), doc.N("GET", "/x").WithParen().WithKids(doc.N("PASTE", "@a1"))}},
		{"duplicate", []*doc.Node{doc.Jsight(), doc.N("MACRO", "@d").WithParen().WithKids(doc.N("200", "any")), doc.N("MACRO", "@d").WithParen().WithKids(doc.N("404", "any")), doc.N("GET", "/x").WithParen().WithKids(doc.N("PASTE", "@d"))}},
		{"duplicate-unused", []*doc.Node{doc.Jsight(), doc.N("MACRO", "@d").WithParen().WithKids(doc.N("200", "any")), doc.N("TYPE", "@t", "any"), doc.N("MACRO", "@d").WithParen().WithKids(doc.N("200", "any"))}},
		{"nameless-paste", []*doc.Node{doc.Jsight(), doc.N("MACRO", "@d").WithParen().WithKids(doc.N("200", "any")), doc.N("GET", "/x").WithParen().WithKids(doc.N("PASTE"))}},
	} {
		if !c.Next() {
			continue
		}
		c.Count("evaluations", 1)
		text := doc.Text(tc.nodes)
		o := run1(text)
		if o.OK() {
			c.Violate("bad-macro-accepted", "C07:accepted:"+tc.label, tc.label+": accepted", map[string]interface{}{"text": text})
		}
	}
}

func indexOr(s string, b byte) int {
	for i := 0; i < len(s); i++ {
		if s[i] == b {
			return i
		}
	}
	return len(s)
}

func hasCycle(adj [][]int) bool {
	n := len(adj)
	color := make([]int, n)
	var dfs func(u int) bool
	dfs = func(u int) bool {
		color[u] = 1
		for _, v := range adj[u] {
			if color[v] == 1 {
				return true
			}
			if color[v] == 0 && dfs(v) {
				return true
			}
		}
		color[u] = 2
		return false
	}
	for i := 0; i < n; i++ {
		if color[i] == 0 && dfs(i) {
			return true
		}
	}
	return false
}
