//go:build verif

package checks

import (
	"fmt"
	"os"
	"sort"
	"strings"

	"github.com/jsightapi/jsight-api-go-library/scanner"
	"github.com/jsightapi/jsight-schema-go-library/fs"

	"verif/internal/doc"
	"verif/internal/fw"
)

// E-CORPUS-META: the maintainers' own fixtures as documents for the metamorphic partners
// (C05 rewritings, C10 permutations, C20 insertions / deletions, C08 file splitting).
// A fixture is a text, not an abstract tree, so its structure is recovered from the real scanner's
// lexeme stream (public API) and the real scan-phase forest (hook VerifScan): the i-th keyword
// lexeme is the i-th directive of the forest in pre-order. Nothing is judged by that structure;
// it only says WHERE a rewrite may be applied. Fixtures for which it cannot be recovered
// unambiguously (INCLUDE, CR line ends, a body starting on its directive line, ...) are skipped
// and counted.

// ctree is one directive of the scan-phase forest.
type ctree struct {
	kw       string
	explicit bool
	kids     []*ctree
	first    int // ordinal of this directive among the keyword lexemes (pre-order)
	size     int // directives in the subtree
}

// parseForest parses VerifScan's S-expression "(KW! (KID) ...) (KW ...)".
func parseForest(s string) []*ctree {
	pos := 0
	ord := 0
	var parse func() *ctree
	parse = func() *ctree {
		// at '('
		pos++
		st := pos
		for pos < len(s) && s[pos] != ' ' && s[pos] != ')' {
			pos++
		}
		t := &ctree{kw: s[st:pos], first: ord}
		ord++
		if strings.HasSuffix(t.kw, "!") {
			t.kw = strings.TrimSuffix(t.kw, "!")
			t.explicit = true
		}
		for pos < len(s) && s[pos] == ' ' {
			pos++
			if pos < len(s) && s[pos] == '(' {
				t.kids = append(t.kids, parse())
			}
		}
		if pos < len(s) && s[pos] == ')' {
			pos++
		}
		t.size = ord - t.first
		return t
	}
	var out []*ctree
	for pos < len(s) {
		if s[pos] == '(' {
			out = append(out, parse())
		} else {
			pos++
		}
	}
	return out
}

// LTrivia marks comment / blank lines of a fixture (never produced by doc.Render).
const LTrivia = doc.LTrivia

type clex struct {
	typ        scanner.LexemeType
	begin, end int // end inclusive as the library reports it
}

// cdoc is a fixture with its recovered structure.
type cdoc struct {
	name   string
	text   string
	r      *doc.Rendered // Lines classified; Spans: one per directive in pre-order
	forest []*ctree
	kwLine []int // line of the i-th keyword lexeme
	lex    []clex
	top    []cchunk
}

// cchunk is a top-level declaration as a run of whole lines [fromLine, toLine).
type cchunk struct {
	tree             *ctree
	fromLine, toLine int
}

func (d *cdoc) chunkText(c cchunk) string {
	b := d.r.Lines[c.fromLine].Begin
	e := len(d.text)
	if c.toLine < len(d.r.Lines) {
		e = d.r.Lines[c.toLine].Begin
	}
	return d.text[b:e]
}

// lexAll runs the real scanner over a single file.
func lexAll(text string) (out []clex, ok bool) {
	defer func() {
		if recover() != nil {
			ok = false
		}
	}()
	s := scanner.NewJApiScanner(fs.NewFile("root.jst", []byte(text)))
	for {
		l, je := s.Next()
		if je != nil {
			return nil, false
		}
		if l == nil {
			return out, true
		}
		out = append(out, clex{l.Type(), int(l.Begin()), int(l.End())})
	}
}

// buildCdoc recovers the structure of a fixture text; why != "" when it is skipped.
func buildCdoc(name, text string) (d *cdoc, why string) {
	if strings.ContainsRune(text, '\r') {
		return nil, "cr-line-ends"
	}
	if text == "" {
		return nil, "empty"
	}
	if !strings.HasSuffix(text, "\n") {
		text += "\n"
	}
	lex, ok := lexAll(text)
	if !ok {
		return nil, "scanner-rejects"
	}
	ir := implScan(text)
	if ir.crash != "" || ir.rej != "" {
		return nil, "scan-phase-rejects"
	}
	forest := parseForest(ir.tree)
	total := 0
	for _, t := range forest {
		total += t.size
	}
	var kws []clex
	for _, l := range lex {
		if l.typ == scanner.Keyword {
			kws = append(kws, l)
		}
	}
	if total != len(kws) || total == 0 {
		return nil, "forest-keyword-mismatch" // INCLUDE, or a directive the scan phase consumes
	}
	d = &cdoc{name: name, text: text, forest: forest, lex: lex}
	// lines
	r := &doc.Rendered{Text: text}
	lineOf := make([]int, len(text)+1)
	begin := 0
	for i := 0; i <= len(text); i++ {
		if i == len(text) || text[i] == '\n' {
			if i == len(text) && begin == i {
				break
			}
			ln := len(r.Lines)
			r.Lines = append(r.Lines, doc.Line{Kind: LTrivia, Begin: begin, End: i})
			for j := begin; j <= i && j < len(lineOf); j++ {
				lineOf[j] = ln
			}
			begin = i + 1
		}
	}
	// keyword -> tree node in pre-order
	var pre []*ctree
	var walk func(tt []*ctree)
	walk = func(tt []*ctree) {
		for _, t := range tt {
			pre = append(pre, t)
			walk(t.kids)
		}
	}
	walk(forest)
	ki := -1
	var cur *doc.Span
	curIsDescription := false
	for _, l := range lex {
		if l.begin < 0 || l.begin > len(text) {
			return nil, "lexeme-out-of-range"
		}
		e := l.end
		if e < l.begin {
			e = l.begin // empty lexeme
		}
		if e >= len(text) {
			e = len(text) - 1
		}
		l0, l1 := lineOf[l.begin], lineOf[e]
		switch l.typ {
		case scanner.Keyword:
			ki++
			kw := text[l.begin : l.end+1]
			if kw != pre[ki].kw {
				return nil, "forest-keyword-mismatch"
			}
			if strings.TrimSpace(text[r.Lines[l0].Begin:l.begin]) != "" {
				return nil, "keyword-not-first-on-line"
			}
			if r.Lines[l0].Kind != LTrivia {
				return nil, "two-things-on-a-line"
			}
			cur = &doc.Span{Node: doc.N(kw), Begin: l.begin, KwEnd: l.end + 1, LineEnd: r.Lines[l0].End}
			r.Spans = append(r.Spans, cur)
			r.Lines[l0].Kind = doc.LDirective
			r.Lines[l0].Span = cur
			d.kwLine = append(d.kwLine, l0)
			curIsDescription = kw == "Description"
		case scanner.Parameter, scanner.Annotation:
			if cur == nil {
				return nil, "parameter-before-keyword"
			}
			for k := l0; k <= l1; k++ {
				if k == d.kwLine[ki] {
					continue
				}
				return nil, "multi-line-annotation"
			}
			if l.typ == scanner.Parameter && l0 == d.kwLine[ki] {
				cur.Node.Params = append(cur.Node.Params, text[l.begin:l.end+1])
			}
		case scanner.Schema, scanner.Enum, scanner.Json:
			for k := l0; k <= l1; k++ {
				if r.Lines[k].Kind == doc.LDirective {
					return nil, "body-on-directive-line"
				}
				r.Lines[k].Kind = doc.LBody
				r.Lines[k].Span = cur
			}
		case scanner.Text:
			for k := l0; k <= l1; k++ {
				if r.Lines[k].Kind == doc.LDirective {
					return nil, "body-on-directive-line"
				}
				r.Lines[k].Kind = doc.LText
				r.Lines[k].Span = cur
			}
		case scanner.ContextExplicitOpening, scanner.ContextExplicitClosing:
			if curIsDescription && l.typ == scanner.ContextExplicitOpening {
				return nil, "parenthesised-description"
			}
			if strings.TrimSpace(text[r.Lines[l0].Begin:r.Lines[l0].End]) != text[l.begin:l.end+1] {
				return nil, "paren-not-alone-on-line"
			}
			r.Lines[l0].Kind = doc.LParen
			r.Lines[l0].Span = cur
		}
	}
	// a Description's text may be delimited by parentheses the scanner folds into the text
	// lexeme; everything between a Description line and the next classified line is free text
	for i := range r.Lines {
		if r.Lines[i].Kind == doc.LDirective && r.Lines[i].Span.Node.Kw == "Description" {
			for k := i + 1; k < len(r.Lines) && (r.Lines[k].Kind == LTrivia || r.Lines[k].Kind == doc.LText); k++ {
				r.Lines[k].Kind = doc.LText
				r.Lines[k].Span = r.Lines[i].Span
			}
		}
	}
	d.r = r
	// top-level chunks: from the line of the declaration's keyword to the line of the next one's
	for i, t := range forest {
		from := d.kwLine[t.first]
		to := len(r.Lines)
		if i+1 < len(forest) {
			to = d.kwLine[forest[i+1].first]
		}
		d.top = append(d.top, cchunk{tree: t, fromLine: from, toLine: to})
	}
	if len(d.top) > 0 && d.top[0].fromLine != 0 {
		// leading trivia belongs to the first chunk
		d.top[0].fromLine = 0
	}
	return d, ""
}

// corpusDocs loads every single-file fixture whose structure can be recovered, smallest first.
func corpusDocs(maxBytes int) (docs []*cdoc, skipped map[string]int) {
	skipped = map[string]int{}
	for _, p := range fixtures() {
		b, err := os.ReadFile(p)
		if err != nil {
			continue
		}
		if maxBytes > 0 && len(b) > maxBytes {
			skipped["too-large"]++
			continue
		}
		name := strings.TrimPrefix(p, repoDir()+"/testdata/")
		d, why := buildCdoc(name, string(b))
		if d == nil {
			skipped[why]++
			continue
		}
		docs = append(docs, d)
	}
	sort.SliceStable(docs, func(i, j int) bool { return len(docs[i].text) < len(docs[j].text) })
	return docs, skipped
}

func init() {
	fw.DebugCmds["corpus"] = func(args []string) {
		docs, skipped := corpusDocs(0)
		fmt.Println("docs", len(docs), "skipped", skipped)
		hist := map[int]int{}
		for _, d := range docs {
			hist[len(d.top)]++
			if len(args) > 0 && strings.Contains(d.name, args[0]) {
				for i, l := range d.r.Lines {
					fmt.Printf("%2d k=%d %q\n", i, l.Kind, d.text[l.Begin:l.End])
				}
				fmt.Println(d.top)
			}
		}
		fmt.Println("top-level histogram", hist)
	}
}
