package checks

import (
	"fmt"
	"strings"
	"time"

	"verif/internal/doc"
	"verif/internal/drv"
	"verif/internal/fw"
)

// bisimHook reports the scanner-graph complement (set by c05bisim.go in the verif build).
var bisimHook func(c *fw.Ctx)

func init() {
	fw.Register(&fw.Check{
		ID: "C05", Prepare: c05Prepare, Level: "model_checking",
		Rule:   "documents = JSIGHT + every closed selection of 1..2 (quick) / 1..3 (thorough) blocks of the pool, canonical rendering; each is rewritten by every single rewrite (line comment at end of every directive/paren line, comment line / block comment / blank lines before every eligible line, indentation of every directive line in {0,1,4 spaces,tab}, trailing blanks, file-wide CRLF / CR, quoting of every bare parameter, parenthesising the children of every implicitly nesting directive) and, thorough, by every rewrite kind applied everywhere at once; non-trivial = baseline accepted and rewritten text differs; distinct = distinct (document, rewrite) texts",
		Assume: []string{"free text (Description bodies) is excluded from re-indentation, comment insertion and newline rewriting as the property says"},
		Run:    runC05, QuickCap: 6 * time.Minute, ThoroughCap: 30 * time.Minute,
	})
}

func runC05(c *fw.Ctx) {
	t0 := time.Now()
	phase := func(name string) {
		if c.Shard == 0 {
			c.Note("seconds_until_end_of_"+name, int(time.Since(t0).Seconds()))
		}
	}
	if c.Shard == 0 && bisimHook != nil {
		bisimHook(c)
	}
	phase("bisimulation_report")
	// the fixtures after the pool: a large fixture has a large neighbourhood, and the cap must cut
	// the end of that one, not the pool
	defer func() {
		phase("pool")
		if corpusC05Hook != nil {
			corpusC05Hook(c)
		}
		phase("corpus")
	}()
	docSets(!c.Quick(), func(name string, blocks []doc.Block) {
		if c.Expired() {
			return
		}
		nodes := doc.Assemble(blocks)
		r := doc.Render(nodes, doc.DefaultStyle())
		baseOut := run1(r.Text)
		check := func(w doc.Rewrite, textFn func() string) { c05Judge(c, name, r, baseOut, w, textFn) }
		for _, w := range doc.TextRewrites(r) {
			w := w
			check(w, func() string { return doc.ApplyText(r, w) })
		}
		for _, tw := range doc.TreeRewrites(nodes) {
			tw := tw
			check(tw.W, func() string { return doc.Text(tw.F) })
		}
		// the end of the input: the document without its final line end, and then with blanks or a
		// comment after the last byte (a directive line, a parenthesis or the last line of a body)
		if last := r.Lines[len(r.Lines)-1]; last.Kind != doc.LText && strings.HasSuffix(r.Text, "\n") {
			bare := strings.TrimSuffix(r.Text, "\n")
			for _, tail := range []string{"", " ", "\t", " \t ", " # c", "# c", " ### c ###", "\n\n", "\n  \n", "\n# c", "\n### c\n###"} {
				tail := tail
				if last.Kind == doc.LBody && strings.HasPrefix(tail, "#") {
					continue // directly after the last byte of a body a comment needs a blank before it (as on every body line)
				}
				check(doc.Rewrite{Kind: "end-of-input", Line: len(r.Lines) - 1, Arg: tail}, func() string { return bare + tail })
			}
		}
		if !c.Quick() && !strings.Contains(name, "+") && len(r.Lines) <= 14 {
			// "all combinations of the listed rewritings": every unordered pair of single text rewrites
			// at different places, and every single text rewrite together with a file-wide change of
			// the line ends (single-selection documents of at most 14 lines)
			ws := doc.TextRewrites(r)
			// a combination is judged only when each of its parts alone leaves the result unchanged:
			// what a single rewrite already changes is reported (or listed as known) under that single
			// rewrite's own signature, not once more per partner
			singleBad := map[int]int{} // 0 unknown, 1 fine, 2 changes the result
			aloneFine := func(i int) bool {
				if singleBad[i] == 0 {
					singleBad[i] = 1
					if _, same := sameResult(baseOut, run1(doc.ApplyText(r, ws[i]))); !same {
						singleBad[i] = 2
					}
				}
				return singleBad[i] == 1
			}
			for i, w1 := range ws {
				if c.Expired() {
					break
				}
				if w1.Line < 0 {
					continue
				}
				if !aloneFine(i) {
					continue
				}
				for _, nl := range []string{"\r\n", "\r"} {
					w1, nl := w1, nl
					check(doc.Rewrite{Kind: w1.Kind + "+newline", Line: w1.Line, Arg: w1.Arg + "|" + nl}, func() string { return composeRewrites(r, []doc.Rewrite{w1}, nl) })
				}
				for j2, w2 := range ws[i+1:] {
					if w2.Line < 0 || w2.Line == w1.Line || (w1.Kind == w2.Kind && w1.Arg == w2.Arg) {
						continue
					}
					// one representative argument per kind for the second rewrite keeps the product square-free
					if w2.Arg != firstArgOf(ws, w2.Kind) {
						continue
					}
					if !aloneFine(i + 1 + j2) {
						continue
					}
					w1, w2 := w1, w2
					check(doc.Rewrite{Kind: w1.Kind + "+" + w2.Kind, Line: w1.Line, Arg: w1.Arg + "|" + w2.Arg}, func() string { return composeRewrites(r, []doc.Rewrite{w1, w2}, "\n") })
				}
			}
		}
		if !c.Quick() {
			// every rewrite of one kind+argument applied at all its positions at once
			groups := map[string][]doc.Rewrite{}
			var order []string
			for _, w := range doc.TextRewrites(r) {
				k := w.Kind + "|" + w.Arg
				if w.Line < 0 {
					continue
				}
				if _, ok := groups[k]; !ok {
					order = append(order, k)
				}
				groups[k] = append(groups[k], w)
			}
			for _, k := range order {
				ws := groups[k]
				check(doc.Rewrite{Kind: ws[0].Kind + "-everywhere", Line: -1, Arg: ws[0].Arg}, func() string {
					// apply from the last line to the first so that line numbers stay valid
					lines := splitKeep(r)
					for i := len(ws) - 1; i >= 0; i-- {
						lines = applyToLines(lines, ws[i])
					}
					return joinLines(lines)
				})
			}
		}
	})
}

// corpusC05Hook runs the same rewrites over the maintainers' fixtures (set in the verif build).
var corpusC05Hook func(c *fw.Ctx)

// c05Judge runs one rewritten text and compares it with the baseline of the same document.
func c05Judge(c *fw.Ctx, name string, r *doc.Rendered, baseOut drv.Outcome, w doc.Rewrite, textFn func() string) {
	if c.Expired() {
		return // the cap is honoured inside large documents, too
	}
	if !c.Next() {
		return
	}
	text := textFn() // built only by the worker that runs the case
	c.Describe(name + " " + w.String())
	c.Count("evaluations", 1)
	if text == r.Text {
		return
	}
	o := run1(text)
	judged, same := sameResult(baseOut, o)
	if !judged {
		c.Count("skipped_crash", 1)
		return
	}
	if baseOut.OK() {
		c.Distinct(text)
	}
	if same {
		c.Sample(w.Kind, 1, map[string]interface{}{"doc": name, "rewrite": w.String(), "verdict": o.Kind})
		return
	}
	if fw.Confirm(func() bool { _, s := sameResult(run1(r.Text), run1(text)); return !s }) {
		det := fmt.Sprintf("document %s, rewrite %s: baseline %s, rewritten %s", name, w, baseOut.Short(), o.Short())
		if baseOut.OK() && o.OK() {
			det += "; JSON differs: " + firstDiff(baseOut.JSON, o.JSON)
		}
		c.Violate("rewrite-changes-result", "C05:"+w.Kind+":"+argClass(w)+":"+lineKw(r, w)+":"+changeClass(baseOut, o), det,
			map[string]interface{}{"doc": name, "rewrite": w.String(), "baseline_text": r.Text, "rewritten_text": text})
	}
}

// argClass abstracts the argument of a rewrite.
func argClass(w doc.Rewrite) string {
	a := strings.TrimSpace(w.Arg)
	switch {
	case w.Kind == "quote" || w.Kind == "paren":
		return "-"
	case strings.HasPrefix(a, "###"):
		return "###"
	case a == "##":
		return "##empty"
	case strings.HasPrefix(a, "##"):
		return "##text"
	case a == "#":
		return "#empty"
	case strings.HasPrefix(a, "#"):
		return "#text"
	case a == "":
		return "blank"
	}
	return fmt.Sprintf("%q", w.Arg)
}

// changeClass says how the result changed.
func changeClass(a, b drv.Outcome) string {
	if a.Kind != b.Kind {
		m := b.Msg
		if m == "" {
			m = a.Msg
		}
		return a.Kind + "->" + b.Kind + ":" + firstWordsN(m, 6)
	}
	return "json-differs"
}

// lineKw names the directive keyword a rewrite touches (part of the violation signature).
func lineKw(r *doc.Rendered, w doc.Rewrite) string {
	if w.Kind == "quote" || w.Kind == "paren" {
		return w.Arg
	}
	if (w.Kind == "comment-line" || w.Kind == "block-comment" || w.Kind == "blank") && w.Line > 0 {
		k := w.Line - 1
		for k > 0 && r.Lines[k].Kind == doc.LTrivia {
			k-- // a fixture's own comment / blank lines: what matters is what they follow
		}
		if r.Lines[k].Kind == doc.LTrivia {
			return "after-trivia"
		}
		return "after-" + []string{"directive", "body", "text", "paren"}[r.Lines[k].Kind]
	}
	if w.Line >= 0 && w.Line < len(r.Lines) && r.Lines[w.Line].Span != nil {
		kw := r.Lines[w.Line].Span.Node.Kw
		if len(kw) == 3 && kw[0] >= '1' && kw[0] <= '5' {
			kw = "code"
		}
		return kw + "/" + fmt.Sprint(r.Lines[w.Line].Kind)
	}
	return "file"
}

func splitKeep(r *doc.Rendered) []string {
	out := make([]string, len(r.Lines))
	for i, l := range r.Lines {
		out[i] = r.Text[l.Begin:l.End]
	}
	return out
}

func applyToLines(lines []string, w doc.Rewrite) []string {
	switch w.Kind {
	case "comment-eol", "trailing":
		lines[w.Line] += w.Arg
	case "indent":
		i := 0
		for i < len(lines[w.Line]) && (lines[w.Line][i] == ' ' || lines[w.Line][i] == '\t') {
			i++
		}
		lines[w.Line] = w.Arg + lines[w.Line][i:]
	default:
		out := append([]string{}, lines[:w.Line]...)
		out = append(out, w.Arg)
		out = append(out, lines[w.Line:]...)
		return out
	}
	return lines
}

func joinLines(l []string) string {
	s := ""
	for _, x := range l {
		s += x + "\n"
	}
	return s
}

// c05Prepare is replaced by the scanner-graph computation in the verif build.
var c05PrepareFn func(tier, dir string) error

func c05Prepare(tier, dir string) error {
	if c05PrepareFn != nil {
		return c05PrepareFn(tier, dir)
	}
	return nil
}

func firstArgOf(ws []doc.Rewrite, kind string) string {
	for _, w := range ws {
		if w.Kind == kind {
			return w.Arg
		}
	}
	return ""
}

// composeRewrites applies several line-level rewrites (at different lines) and then writes the
// document with the given line end; line ends between two lines of free text stay LF.
func composeRewrites(r *doc.Rendered, ws []doc.Rewrite, nl string) string {
	type ln struct {
		text string
		kind doc.LineKind
	}
	var lines []ln
	for _, l := range r.Lines {
		lines = append(lines, ln{r.Text[l.Begin:l.End], l.Kind})
	}
	// from the last line to the first so that line numbers stay valid
	sorted := append([]doc.Rewrite{}, ws...)
	for i := 0; i < len(sorted); i++ {
		for j := i + 1; j < len(sorted); j++ {
			if sorted[j].Line > sorted[i].Line {
				sorted[i], sorted[j] = sorted[j], sorted[i]
			}
		}
	}
	for _, w := range sorted {
		switch w.Kind {
		case "comment-eol", "trailing":
			lines[w.Line].text += w.Arg
		case "indent":
			lines[w.Line].text = w.Arg + strings.TrimLeft(lines[w.Line].text, " \t")
		default:
			var ins []ln
			for _, t := range strings.Split(w.Arg, "\n") {
				ins = append(ins, ln{t, doc.LTrivia})
			}
			lines = append(lines[:w.Line], append(ins, lines[w.Line:]...)...)
		}
	}
	var b strings.Builder
	for i, l := range lines {
		b.WriteString(l.text)
		if l.kind == doc.LText && i+1 < len(lines) && lines[i+1].kind == doc.LText {
			b.WriteString("\n")
		} else {
			b.WriteString(nl)
		}
	}
	return b.String()
}
