//go:build verif

package checks

import (
	"fmt"
	"os"
	"sort"
	"strings"

	"github.com/jsightapi/jsight-api-go-library/catalog"
	"github.com/jsightapi/jsight-api-go-library/directive"
	"github.com/jsightapi/jsight-api-go-library/scanner"

	"verif/internal/doc"
	"verif/internal/drv"
	"verif/internal/fw"
	"verif/internal/jsonx"
)

// E-REFCAT: a reference compiler. From the lexeme stream of a text (real scanner, whose lexemes
// C14 judges) it builds the directive forest with the reference resolver of C06 (admissibility
// table only), substitutes every PASTE by the token stream of the macro it names and resolves
// again (the sentence of C07), and reads off what the properties say the catalog must hold:
// the interactions in source order with their tags (C19) and path variables (C13), the names of
// servers / types / enums / tags, info, annotations (C04) - and the faults of C11 / C07 it can
// see without reading schemas. It is deliberately partial: wherever the sentences do not decide,
// the reference says "unknown" for that aspect and the document is not judged there.
//
// Documents: every single-file fixture of the repository the scanner reads, and every closed
// selection of pool blocks. Each check judges only the aspect of its own property.

type rdir struct {
	kw       string
	params   []string // values (quotes removed, escapes resolved)
	annot    string
	hasAnnot bool
	body     string
	hasBody  bool
	explicit bool
	pos      int
	kids     []*rdir
	parent   *rdir
}

func (d *rdir) kid(kw string) *rdir {
	for _, k := range d.kids {
		if k.kw == kw {
			return k
		}
	}
	return nil
}

func (d *rdir) p0() string {
	if len(d.params) > 0 {
		return d.params[0]
	}
	return ""
}

func unquoteParam(raw string) string {
	if len(raw) >= 2 && raw[0] == '"' && raw[len(raw)-1] == '"' {
		var b strings.Builder
		in := raw[1 : len(raw)-1]
		for i := 0; i < len(in); i++ {
			if in[i] == '\\' && i+1 < len(in) {
				i++
			}
			b.WriteByte(in[i])
		}
		return b.String()
	}
	return raw
}

type rtok struct {
	d     *rdir // nil for a parenthesis
	close bool
}

// refTokens: the directive occurrences of a text with their parentheses, from the real scanner.
func refTokens(text string) (toks []rtok, ok bool) {
	lex, ok := lexAll(text)
	if !ok {
		return nil, false
	}
	var cur *rdir
	for _, l := range lex {
		if l.begin < 0 || l.begin > len(text) || l.end >= len(text) {
			return nil, false
		}
		s := ""
		if l.end >= l.begin {
			s = text[l.begin : l.end+1]
		}
		switch l.typ {
		case scanner.Keyword:
			cur = &rdir{kw: s, pos: l.begin}
			toks = append(toks, rtok{d: cur})
		case scanner.Parameter:
			if cur == nil {
				return nil, false
			}
			cur.params = append(cur.params, unquoteParam(s))
		case scanner.Annotation:
			if cur == nil {
				return nil, false
			}
			cur.annot, cur.hasAnnot = s, true
		case scanner.Schema, scanner.Enum, scanner.Json, scanner.Text:
			if cur == nil {
				return nil, false
			}
			cur.body, cur.hasBody = s, true
		case scanner.ContextExplicitOpening:
			toks = append(toks, rtok{})
		case scanner.ContextExplicitClosing:
			toks = append(toks, rtok{close: true})
		}
	}
	return toks, true
}

func isHTTPMethod(kw string) bool {
	switch kw {
	case "GET", "POST", "PUT", "PATCH", "DELETE":
		return true
	}
	return false
}

// refResolve runs the reference resolver of C06 over a token stream. rejected is "" | ctx | close | eof | kw.
func refResolve(toks []rtok) (roots []*rdir, rejected string) {
	al := make([]ctxTok, len(toks))
	seq := make([]int, len(toks))
	for i, t := range toks {
		seq[i] = i
		switch {
		case t.d == nil && !t.close:
			al[i] = ctxTok{name: "(", kw: "("}
		case t.d == nil:
			al[i] = ctxTok{name: ")", kw: ")"}
		default:
			e, err := directive.NewDirectiveType(t.d.kw)
			if err != nil {
				return nil, "kw"
			}
			m := isHTTPMethod(t.d.kw)
			al[i] = ctxTok{name: t.d.kw, kw: t.d.kw, enum: e, method: m, path: m && len(t.d.params) > 0}
		}
	}
	st := refRun(al, seq)
	st.end(al)
	if st.rejected != "" {
		return nil, st.rejected
	}
	var conv func(n *rnode, parent *rdir) *rdir
	conv = func(n *rnode, parent *rdir) *rdir {
		d := toks[n.tok].d
		d.explicit, d.parent, d.kids = n.explicit, parent, nil
		for _, k := range n.kids {
			d.kids = append(d.kids, conv(k, d))
		}
		return d
	}
	for _, r := range st.roots {
		roots = append(roots, conv(r, nil))
	}
	return roots, ""
}

func sexprR(roots []*rdir) string {
	var b strings.Builder
	var rec func(n *rdir)
	rec = func(n *rdir) {
		b.WriteByte('(')
		b.WriteString(n.kw)
		if n.explicit {
			b.WriteByte('!')
		}
		for _, k := range n.kids {
			b.WriteByte(' ')
			rec(k)
		}
		b.WriteByte(')')
	}
	for i, r := range roots {
		if i > 0 {
			b.WriteByte(' ')
		}
		rec(r)
	}
	return b.String()
}

// refExpand substitutes every PASTE by a copy of the token stream of the macro's children.
func refExpand(roots []*rdir) (out []rtok, fault string) {
	macros := map[string]*rdir{}
	for _, r := range roots {
		if r.kw == "MACRO" {
			if _, dup := macros[r.p0()]; dup {
				return nil, "duplicate-macro"
			}
			macros[r.p0()] = r
		}
	}
	var stack []string
	var emit func(nn []*rdir) string
	emit = func(nn []*rdir) string {
		for _, n := range nn {
			if n.kw == "PASTE" {
				m := macros[n.p0()]
				if m == nil {
					return "paste-undefined"
				}
				for _, s := range stack {
					if s == n.p0() {
						return "macro-cycle"
					}
				}
				stack = append(stack, n.p0())
				if f := emit(m.kids); f != "" {
					return f
				}
				stack = stack[:len(stack)-1]
				continue
			}
			c := *n
			c.kids, c.parent = nil, nil
			out = append(out, rtok{d: &c})
			if n.explicit {
				out = append(out, rtok{})
			}
			if n.kw == "MACRO" {
				stack = append(stack, n.p0()) // a macro pasting itself inside its own body
			}
			f := emit(n.kids)
			if n.kw == "MACRO" {
				stack = stack[:len(stack)-1]
			}
			if f != "" {
				return f
			}
			if n.explicit {
				out = append(out, rtok{close: true})
			}
		}
		return ""
	}
	fault = emit(roots)
	return out, fault
}

type refInter struct {
	id      string
	tags    []string // nil: automatic
	auto    string   // automatic tag name
	annot   string
	pathDir string
	node    *rdir
	vars    []string // expected pathVariables keys; valid only when varsKnown
}

type refCat struct {
	forest1, forest2     string
	title, version       *string
	servers, types       []string
	enums, tagDecl       []string
	tagTitle             map[string]string
	annots               map[string]string // "servers/@s" -> annotation
	baseURL              map[string]string
	inters               []refInter
	faults               []string // the document must be rejected (C11 / C07 / C06 sentences)
	unknown              map[string]string
	varsKnown            bool
	rejectedCtx          string
	hasMacro, hasPathDir bool
}

// pathKeys extracts the top-level keys of a literal object body; ok=false when it is not one.
func pathKeys(body string) (keys []string, ok bool) {
	s := strings.TrimSpace(body)
	if !strings.HasPrefix(s, "{") {
		return nil, false
	}
	depth := 0
	expectKey := false
	for i := 0; i < len(s); i++ {
		ch := s[i]
		switch {
		case ch == '/' && i+1 < len(s) && s[i+1] == '/':
			for i < len(s) && s[i] != '\n' {
				i++
			}
		case ch == '/' && i+1 < len(s) && s[i+1] == '*':
			j := strings.Index(s[i+2:], "*/")
			if j < 0 {
				return nil, false
			}
			i += j + 3
		case ch == '#':
			for i < len(s) && s[i] != '\n' {
				i++
			}
		case ch == '{' || ch == '[':
			depth++
			expectKey = ch == '{' && depth == 1
		case ch == '}' || ch == ']':
			depth--
		case ch == ',':
			if depth == 1 {
				expectKey = true
			}
		case ch == '"':
			j := i + 1
			for j < len(s) && s[j] != '"' {
				if s[j] == '\\' {
					j++
				}
				j++
			}
			if j >= len(s) {
				return nil, false
			}
			if depth == 1 && expectKey {
				keys = append(keys, s[i+1:j])
				expectKey = false
			}
			i = j
		case depth == 1 && expectKey && (ch == '_' || ch == '@' || ch >= 'a' && ch <= 'z' || ch >= 'A' && ch <= 'Z' || ch >= '0' && ch <= '9'):
			j := i
			for j < len(s) && s[j] != ':' && s[j] != ' ' && s[j] != '\n' && s[j] != '\t' {
				j++
			}
			keys = append(keys, s[i:j])
			expectKey = false
			i = j - 1
		}
	}
	if depth != 0 {
		return nil, false
	}
	return keys, true
}

// refCompile builds the reference view of a text; ok=false when the text is outside its domain
// (the scanner rejects it, INCLUDE, unknown keyword).
func refCompile(text string) (rc *refCat, ok bool) {
	toks, ok := refTokens(text)
	if !ok || len(toks) == 0 {
		return nil, false
	}
	for _, t := range toks {
		if t.d != nil && t.d.kw == "INCLUDE" {
			return nil, false
		}
	}
	rc = &refCat{tagTitle: map[string]string{}, annots: map[string]string{}, baseURL: map[string]string{}, unknown: map[string]string{}, varsKnown: true}
	roots1, rej := refResolve(toks)
	if rej == "kw" {
		return nil, false
	}
	if rej != "" {
		rc.rejectedCtx = rej
		rc.faults = append(rc.faults, "context:"+rej)
		return rc, true
	}
	rc.forest1 = sexprR(roots1)
	toks2, fault := refExpand(roots1)
	if fault != "" {
		rc.faults = append(rc.faults, fault)
		return rc, true
	}
	roots, rej := refResolve(toks2)
	if rej != "" {
		rc.rejectedCtx = rej
		rc.faults = append(rc.faults, "context-after-paste:"+rej)
		return rc, true
	}
	var noMacro []*rdir
	for _, r := range roots {
		if r.kw != "MACRO" {
			noMacro = append(noMacro, r)
		}
	}
	rc.forest2 = sexprR(noMacro) // the implementation's second forest leaves the definitions out

	seen := map[string]bool{}
	decl := func(coll, name string, d *rdir) {
		if name == "" {
			rc.unknown["names"] = coll + " without a name"
			return
		}
		if seen[coll+"/"+name] {
			rc.faults = append(rc.faults, "duplicate-"+coll+":"+name)
		}
		seen[coll+"/"+name] = true
		if d.hasAnnot {
			rc.annots[coll+"/"+name] = refAnnotation(d.annot)
		}
	}
	declared := map[string]bool{} // path prefix -> a Path directive declares its parameter
	type pend struct {
		in   int
		path string
	}
	var pends []pend
	addInter := func(id string, m *rdir, url *rdir, path string, http bool) {
		in := refInter{id: id, node: m, auto: catalog.VerifTagName(catalog.VerifPathTagTitle(path))}
		if m.hasAnnot {
			in.annot = refAnnotation(m.annot)
		}
		if t := m.kid("Tags"); t != nil {
			in.tags = append([]string{}, t.params...)
		} else if url != nil {
			if t := url.kid("Tags"); t != nil {
				in.tags = append([]string{}, t.params...)
			}
		}
		if seen["interactions/"+id] {
			rc.faults = append(rc.faults, "duplicate-interaction:"+id)
		}
		seen["interactions/"+id] = true
		rc.inters = append(rc.inters, in)
		if http {
			pends = append(pends, pend{len(rc.inters) - 1, path})
		}
	}
	pathDecl := func(owner *rdir, path string) {
		for _, k := range owner.kids {
			if k.kw != "Path" {
				continue
			}
			rc.hasPathDir = true
			keys, ok := pathKeys(k.body)
			if !ok || len(k.params) > 0 || strings.Contains(k.body, "allOf") {
				rc.varsKnown = false
				rc.unknown["pathVariables"] = "a Path body that is not a literal object without inheritance"
				continue
			}
			pp, bad := refPathParams(path)
			if bad {
				rc.varsKnown = false
			}
			for _, key := range keys {
				found := false
				for _, p := range pp {
					if p.name == key {
						found = true
						if declared[p.prefix] {
							rc.faults = append(rc.faults, "path-parameter-declared-twice:"+p.prefix)
						}
						declared[p.prefix] = true
					}
				}
				if !found {
					rc.faults = append(rc.faults, "path-property-matches-no-segment:"+key)
				}
			}
		}
	}
	var tagWalk func(t *rdir)
	tagWalk = func(t *rdir) {
		decl("tags", t.p0(), t)
		rc.tagDecl = append(rc.tagDecl, t.p0())
		if t.hasAnnot && refAnnotation(t.annot) != "" {
			rc.tagTitle[t.p0()] = refAnnotation(t.annot)
		} else {
			rc.tagTitle[t.p0()] = t.p0()
		}
		for _, k := range t.kids {
			if k.kw == "TAG" {
				tagWalk(k)
			}
		}
	}
	for _, r := range roots {
		switch {
		case r.kw == "MACRO":
			rc.hasMacro = true
		case r.kw == "INFO":
			if t := r.kid("Title"); t != nil && len(t.params) == 1 {
				v := t.params[0]
				rc.title = &v
			}
			if t := r.kid("Version"); t != nil && len(t.params) == 1 {
				v := t.params[0]
				rc.version = &v
			}
		case r.kw == "SERVER":
			decl("servers", r.p0(), r)
			rc.servers = append(rc.servers, r.p0())
			if b := r.kid("BaseUrl"); b != nil && len(b.params) == 1 {
				rc.baseURL[r.p0()] = b.params[0]
			}
		case r.kw == "TYPE":
			decl("userTypes", r.p0(), r)
			rc.types = append(rc.types, r.p0())
		case r.kw == "ENUM":
			decl("userEnums", r.p0(), r)
			rc.enums = append(rc.enums, r.p0())
		case r.kw == "TAG":
			tagWalk(r)
		case r.kw == "URL":
			path := r.p0()
			rpc := false
			if p := r.kid("Protocol"); p != nil {
				rpc = p.p0() == "json-rpc-2.0"
			}
			pathDecl(r, path)
			for _, k := range r.kids {
				switch {
				case isHTTPMethod(k.kw):
					if rpc {
						rc.unknown["interactions"] = "an HTTP method in a JSON-RPC URL"
					}
					pathDecl(k, path)
					addInter("http "+k.kw+" "+path, k, r, path, true)
				case k.kw == "Method":
					if !rpc {
						rc.unknown["interactions"] = "a Method in a URL without the JSON-RPC protocol"
					}
					addInter("json-rpc-2.0 "+k.p0()+" "+path, k, r, path, false)
				}
			}
		case isHTTPMethod(r.kw):
			if len(r.params) == 0 {
				rc.unknown["interactions"] = "a top-level method without a path"
				continue
			}
			pathDecl(r, r.p0())
			addInter("http "+r.kw+" "+r.p0(), r, nil, r.p0(), true)
		}
	}
	for _, p := range pends {
		pp, bad := refPathParams(p.path)
		if bad {
			rc.faults = append(rc.faults, "empty-or-repeated-path-parameter:"+p.path)
		}
		for _, x := range pp {
			if declared[x.prefix] {
				rc.inters[p.in].vars = append(rc.inters[p.in].vars, x.name)
			}
		}
	}
	// Tags must be declared
	declTag := map[string]bool{}
	for _, t := range rc.tagDecl {
		declTag[t] = true
	}
	for _, in := range rc.inters {
		for _, t := range in.tags {
			if !declTag[t] {
				rc.faults = append(rc.faults, "undeclared-tag:"+t)
			}
		}
	}
	return rc, true
}

// refJudge compares an accepted catalog with the reference; returns aspect -> first mismatch.
func refJudge(rc *refCat, js string) map[string]string {
	out := map[string]string{}
	cat, dups, err := jsonx.Parse([]byte(js))
	if err != nil || len(dups) > 0 {
		out["interactions"] = "unreadable catalog"
		return out
	}
	keysOf := func(coll string) []string {
		v := cat.Get(coll)
		if v == nil {
			return nil
		}
		return v.Keys
	}
	cmpList := func(aspect, coll string, want []string) {
		got := keysOf(coll)
		if strings.Join(got, "\x00") != strings.Join(want, "\x00") {
			out[aspect] = fmt.Sprintf("%s: catalog has %q, the document declares %q", coll, got, want)
		}
	}
	if rc.unknown["names"] == "" {
		cmpList("names", "servers", rc.servers)
		if out["names"] == "" {
			cmpList("names", "userTypes", rc.types)
		}
		if out["names"] == "" {
			cmpList("names", "userEnums", rc.enums)
		}
	}
	if rc.unknown["interactions"] == "" {
		var ids []string
		for _, in := range rc.inters {
			ids = append(ids, in.id)
		}
		cmpList("interactions", "interactions", ids)
	}
	if out["interactions"] == "" && rc.unknown["interactions"] == "" {
		// tags
		var exp []expI
		for _, in := range rc.inters {
			t := in.tags
			if t == nil {
				t = []string{in.auto}
			}
			exp = append(exp, expI{in.id, t})
		}
		if d := checkTags(js, exp, rc.tagTitle); d != "" {
			out["tags"] = d
		}
		// every declared tag has an entry; every entry is declared or automatic
		want := map[string]bool{}
		for _, t := range rc.tagDecl {
			want[t] = true
		}
		for _, e := range exp {
			for _, t := range e.tags {
				want[t] = true
			}
		}
		got := map[string]bool{}
		for _, k := range keysOf("tags") {
			got[k] = true
		}
		for k := range want {
			if !got[k] && out["tags"] == "" {
				out["tags"] = fmt.Sprintf("tag-entry-missing: %q", k)
			}
		}
		for k := range got {
			if !want[k] && out["tags"] == "" {
				out["tags"] = fmt.Sprintf("tag-entry-extra: %q is neither declared nor the automatic tag of an interaction", k)
			}
		}
		in := cat.Get("interactions")
		for i, ri := range rc.inters {
			e := in.Vals[i]
			// annotation
			ga := ""
			if a := e.Get("annotation"); a != nil {
				ga = a.Str()
			}
			if ga != ri.annot && out["annotations"] == "" {
				out["annotations"] = fmt.Sprintf("interaction %q has annotation %q, the document says %q", ri.id, ga, ri.annot)
			}
			if !strings.HasPrefix(ri.id, "http ") || !rc.varsKnown {
				continue
			}
			var gv []string
			pv := e.Get("pathVariables")
			if pv != nil {
				if ch := pv.Path("schema", "content", "children"); ch != nil {
					for _, x := range ch.A {
						gv = append(gv, x.Get("key").Str())
					}
				}
			}
			if (strings.Join(gv, ",") != strings.Join(ri.vars, ",") || len(ri.vars) == 0 && pv != nil) && out["pathVariables"] == "" {
				out["pathVariables"] = fmt.Sprintf("interaction %q has pathVariables %v, the Path directives of the document declare %v", ri.id, gv, ri.vars)
			}
		}
	}
	// info, annotations of named entries, base URLs
	if rc.title != nil {
		if g := cat.Path("info", "title"); g == nil || g.Str() != *rc.title {
			out["info"] = fmt.Sprintf("info.title is %v, the document says %q", strOf(g), *rc.title)
		}
	}
	if rc.version != nil && out["info"] == "" {
		if g := cat.Path("info", "version"); g == nil || g.Str() != *rc.version {
			out["info"] = fmt.Sprintf("info.version is %v, the document says %q", strOf(g), *rc.version)
		}
	}
	for s, u := range rc.baseURL {
		if g := cat.Path("servers", s, "baseUrl"); (g == nil || g.Str() != u) && out["info"] == "" {
			out["info"] = fmt.Sprintf("servers.%s.baseUrl is %v, the document says %q", s, strOf(g), u)
		}
	}
	var ak []string
	for k := range rc.annots {
		ak = append(ak, k)
	}
	sort.Strings(ak)
	for _, k := range ak {
		i := strings.IndexByte(k, '/')
		if k[:i] == "tags" {
			continue // a tag's annotation is its title (judged with the tags)
		}
		g := cat.Path(k[:i], k[i+1:], "annotation")
		if (g == nil || g.Str() != rc.annots[k]) && out["annotations"] == "" && rc.annots[k] != "" {
			out["annotations"] = fmt.Sprintf("%s has annotation %v, the document says %q", k, strOf(g), rc.annots[k])
		}
	}
	return out
}

func strOf(v *jsonx.V) string {
	if v == nil {
		return "absent"
	}
	return fmt.Sprintf("%q", v.Str())
}

// refcatDocs: the documents of E-REFCAT.
func refcatDocs(thorough bool, f func(name, text string)) {
	for _, p := range fixtures() {
		b, err := os.ReadFile(p)
		if err != nil || len(b) > 60000 {
			continue
		}
		f("fixture:"+strings.TrimPrefix(p, repoDir()+"/testdata/"), string(b))
	}
	docSets(thorough, func(name string, blocks []doc.Block) {
		f("pool:"+name, doc.Render(doc.Assemble(blocks), doc.DefaultStyle()).Text)
	})
}

// faultOwner: which property's sentence makes a predicted fault a rejection.
func faultOwner(f string) string {
	switch {
	case strings.HasPrefix(f, "context"):
		return "C06"
	case strings.HasPrefix(f, "duplicate-macro"), strings.HasPrefix(f, "paste-undefined"), strings.HasPrefix(f, "macro-cycle"):
		return "C07"
	case strings.HasPrefix(f, "path-"), strings.HasPrefix(f, "empty-or-repeated"):
		return "C13"
	case strings.HasPrefix(f, "undeclared-tag"):
		return "C19"
	}
	return "C11"
}

// aspectOwner: which check judges which aspect.
var aspectOwner = map[string]string{"interactions": "C04", "names": "C04", "info": "C04", "annotations": "C04", "tags": "C19", "pathVariables": "C13"}

// runRefcat judges the aspects owned by check id over every document of E-REFCAT.
func runRefcat(c *fw.Ctx, id string) {
	refcatDocs(!c.Quick(), func(name, text string) {
		if c.Expired() || !c.Next() {
			return
		}
		c.Describe("refcat " + name)
		c.Count("evaluations", 1)
		refcatJudgeDoc(c, id, name, text, run1(text))
	})
}

// refcatJudgeDoc judges one document that has been run (outcome o) with the sentences of check id.
func refcatJudgeDoc(c *fw.Ctx, id, name, text string, o drv.Outcome) {
	rc, ok := refCompile(text)
	if !ok {
		c.Count("refcat_outside_domain", 1)
		return
	}
	c.Count("refcat_documents", 1)
	if o.Crashed() {
		c.Count("skipped_crash", 1)
		return
	}
	if id == "C06" || id == "C07" {
		// the forests of the implementation are the reference resolver's: the first one (C06) and
		// the one after every PASTE has been replaced by the body of its macro (C07)
		ir := implScan(text)
		if id == "C06" {
			switch {
			case ir.crash != "":
			case rc.rejectedCtx != "" && strings.HasPrefix(rc.faults[0], "context:"):
				if ir.rej == "" {
					c.Violate("refcat-context", "C06:refcat:accepted:"+rc.rejectedCtx, fmt.Sprintf("%s: the reference resolver rejects (%s), the implementation builds %s", name, rc.rejectedCtx, clipS(ir.tree, 200)), map[string]interface{}{"text": text})
				}
			case ir.rej == "ctx" || ir.rej == "close" || ir.rej == "eof":
				c.Violate("refcat-context", "C06:refcat:rejected:"+ir.rej, fmt.Sprintf("%s: the implementation rejects (%s: %s), the reference resolver builds %s", name, ir.rej, ir.msg, clipS(rc.forest1, 200)), map[string]interface{}{"text": text})
			case ir.rej == "" && rc.forest1 != "" && ir.tree != rc.forest1:
				c.Violate("refcat-forest", "C06:refcat:forest", fmt.Sprintf("%s: forests differ: implementation %s, reference %s", name, clipS(ir.tree, 300), clipS(rc.forest1, 300)), map[string]interface{}{"text": text})
			default:
				c.Distinct(text)
			}
			return
		}
		if ir.crash == "" && ir.rej == "" && rc.forest2 != "" {
			ip := implPaste(text)
			switch {
			case ip.crash != "":
			case ip.rej == "ctx":
				c.Violate("refcat-forest-after-paste", "C07:refcat:rejected-after-paste", fmt.Sprintf("%s: with every PASTE replaced by the body of its macro the reference resolver builds %s, the implementation rejects (%s)", name, clipS(rc.forest2, 200), ip.msg), map[string]interface{}{"text": text})
			case ip.rej == "" && ip.tree != rc.forest2:
				c.Violate("refcat-forest-after-paste", "C07:refcat:forest-after-paste", fmt.Sprintf("%s: forests after macro expansion differ: implementation %s, reference %s", name, clipS(ip.tree, 300), clipS(rc.forest2, 300)), map[string]interface{}{"text": text})
			case ip.rej == "" && rc.hasMacro:
				c.Distinct(text)
			}
		}
	}
	if len(rc.faults) > 0 {
		for _, f := range rc.faults {
			if faultOwner(f) != id || id == "C06" {
				continue
			}
			c.Distinct(text)
			if o.OK() {
				c.Violate("refcat-fault-accepted", id+":refcat:fault:"+firstWordsN(strings.ReplaceAll(f, ":", " "), 1), fmt.Sprintf("%s: the document has the fault %q, yet it is accepted", name, f), map[string]interface{}{"text": text})
			} else {
				c.Sample("refcat fault "+firstWordsN(strings.ReplaceAll(f, ":", " "), 1), 1, map[string]interface{}{"doc": name, "fault": f, "diagnostic": o.Short()})
			}
			break
		}
		return
	}
	if !o.OK() {
		c.Count("refcat_rejected_for_reasons_outside_the_reference", 1)
		return
	}
	mis := refJudge(rc, o.JSON)
	judged := false
	for asp, owner := range aspectOwner {
		if owner != id {
			continue
		}
		judged = true
		if m := mis[asp]; m != "" {
			c.Violate("refcat-"+asp, id+":refcat:"+asp+":"+firstWordsN(m, 1), name+": "+m, map[string]interface{}{"text": text})
		}
	}
	if judged {
		c.Distinct(text)
		c.Count("refcat_accepted_documents_judged", 1)
	}
}

func init() {
	refcatHook = runRefcat
	refcatAlso = func(c *fw.Ctx, id, label, text string, o drv.Outcome) {
		refcatJudgeDoc(c, id, "generated:"+label, text, o)
	}
	refcatCross = func(c *fw.Ctx, id string, gens ...func(c *fw.Ctx)) {
		docTap = func(label, text string, o drv.Outcome) {
			c.Count("refcat_documents_of_other_generators", 1)
			refcatJudgeDoc(c, id, "generated:"+label, text, o)
		}
		// the other generators run with the bounds of their quick tier in both tiers (their own
		// checks run them deeper); what varies with the tier is this check's own generator
		tier := c.Tier
		c.Tier = "quick"
		defer func() { docTap = nil; c.Tier = tier }()
		for _, g := range gens {
			g(c)
		}
	}
}

func init() {
	fw.DebugCmds["refcat"] = func(args []string) {
		classes := map[string][]string{}
		n, outside, acc := 0, 0, 0
		refcatDocs(false, func(name, text string) {
			if len(args) > 0 && !strings.Contains(name, args[0]) {
				return
			}
			rc, ok := refCompile(text)
			if !ok {
				outside++
				return
			}
			n++
			o := run1(text)
			ir := implScan(text)
			if ir.crash == "" && ir.rej == "" && rc.forest1 != "" && ir.tree != rc.forest1 {
				classes["forest"] = append(classes["forest"], name)
			}
			if ip := implPaste(text); ip.crash == "" && ip.rej == "" && rc.forest2 != "" && ip.tree != rc.forest2 {
				classes["forest2"] = append(classes["forest2"], name+" :: impl "+ip.tree+" ref "+rc.forest2)
			}
			if rc.rejectedCtx != "" && strings.HasPrefix(rc.faults[0], "context:") && ir.rej == "" {
				classes["ctx-accepted"] = append(classes["ctx-accepted"], name)
			}
			if rc.rejectedCtx == "" && (ir.rej == "ctx" || ir.rej == "close" || ir.rej == "eof") {
				classes["ctx-rejected"] = append(classes["ctx-rejected"], name)
			}
			if len(args) > 0 {
				fmt.Printf("== %s\nforest1 %s\nforest2 %s\nfaults %v unknown %v\nimpl %s\n", name, rc.forest1, rc.forest2, rc.faults, rc.unknown, o.Short())
			}
			if len(rc.faults) > 0 {
				if o.OK() {
					classes["fault-accepted:"+rc.faults[0]] = append(classes["fault-accepted:"+rc.faults[0]], name)
				}
				return
			}
			if !o.OK() {
				return
			}
			acc++
			for asp, m := range refJudge(rc, o.JSON) {
				classes[asp] = append(classes[asp], name+" :: "+m)
			}
		})
		fmt.Println("documents", n, "outside", outside, "accepted+judged", acc)
		var ks []string
		for k := range classes {
			ks = append(ks, k)
		}
		sort.Strings(ks)
		for _, k := range ks {
			fmt.Println("CLASS", k, len(classes[k]))
			for i, x := range classes[k] {
				if i < 6 {
					fmt.Println("   ", clipS(x, 400))
				}
			}
		}
	}
}
