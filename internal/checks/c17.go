//go:build verif

package checks

import (
	"fmt"
	"strings"
	"time"
	"unicode/utf8"

	"verif/internal/drv"
	"verif/internal/fw"
	"verif/internal/jsonx"

	"github.com/jsightapi/jsight-api-go-library/directive"
)

func init() {
	fw.Register(&fw.Check{
		ID: "C17", Level: "model_checking",
		Rule: "ALL strings of length 1..4 (quick) / 1..5 (thorough) over {a \\ \" # / * space tab @ [ é} written in double quotes (\" and \\ escaped) in every parameter host (Title, Version, BaseUrl, Query example, method path, URL path, JSON-RPC method name): the catalog field must equal the string; every such string that needs no quotes also written bare: same result; malformed forms (unterminated quote at every length, backslash before every other alphabet character at every position): rejected at that byte; the unescape function itself against the reference on all strings of length <= 6 / 7; non-trivial = string containing a quote, backslash, blank or comment/annotation character; distinct = distinct (host, string) ; every ASCII character but the line ends and one UTF-8 character for every (lead byte, second byte) pair, inside a value and at its start, quoted and bare ; every run of 1..2 blanks and tabs between keyword and parameter (values of length <= 2, quoted and bare): same reading",
		Run:  runC17, QuickCap: 8 * time.Minute, ThoroughCap: 40 * time.Minute,
	})
}

var c17Alpha = []string{"a", "\\", "\"", "#", "/", "*", " ", "\t", "@", "[", "é"}

func escQuoted(s string) string {
	return "\"" + strings.NewReplacer("\\", "\\\\", "\"", "\\\"").Replace(s) + "\""
}

// refUnescape is the sentence of the property: not in quotes -> the bytes; in quotes -> drop
// the outer quotes, \" -> ", \\ -> \, left to right, once.
func refUnescape(src string) string {
	if len(src) < 2 || src[0] != '"' || src[len(src)-1] != '"' {
		return src
	}
	in := src[1 : len(src)-1]
	var b strings.Builder
	for i := 0; i < len(in); i++ {
		if in[i] == '\\' && i+1 < len(in) && (in[i+1] == '"' || in[i+1] == '\\') {
			i++
		}
		b.WriteByte(in[i])
	}
	return b.String()
}

type paramHost struct {
	name string
	doc  func(p string) string // document with the parameter in source form p
	get  func(cat *jsonx.V) (string, bool)
	ok   func(v string) bool // values the host itself accepts
}

func paramHosts() []paramHost {
	return []paramHost{
		{"Title", func(p string) string { return "JSIGHT 0.3\nINFO\n  Title " + p + "\n" },
			func(c *jsonx.V) (string, bool) { v := c.Path("info", "title"); return v.Str(), v != nil }, nil},
		{"Version", func(p string) string { return "JSIGHT 0.3\nINFO\n  Version " + p + "\n" },
			func(c *jsonx.V) (string, bool) { v := c.Path("info", "version"); return v.Str(), v != nil }, nil},
		{"BaseUrl", func(p string) string { return "JSIGHT 0.3\nSERVER @s\n  BaseUrl " + p + "\n" },
			func(c *jsonx.V) (string, bool) { v := c.Path("servers", "@s", "baseUrl"); return v.Str(), v != nil }, nil},
		{"QueryExample", func(p string) string { return "JSIGHT 0.3\nGET /q\n  Query " + p + "\n    {}\n" },
			func(c *jsonx.V) (string, bool) {
				in := c.Get("interactions")
				if in == nil || len(in.Vals) != 1 {
					return "", false
				}
				v := in.Vals[0].Path("query", "example")
				return v.Str(), v != nil
			}, func(v string) bool { return v != "htmlFormEncoded" && v != "noFormat" }},
		{"MethodName", func(p string) string { return "JSIGHT 0.3\nURL /r\n  Protocol json-rpc-2.0\n  Method " + p + "\n" },
			func(c *jsonx.V) (string, bool) {
				in := c.Get("interactions")
				if in == nil || len(in.Vals) != 1 {
					return "", false
				}
				v := in.Vals[0].Get("method")
				return v.Str(), v != nil
			}, nil},
	}
}

// pathHosts take "/"+s.
func pathHosts() []paramHost {
	getPath := func(c *jsonx.V) (string, bool) {
		in := c.Get("interactions")
		if in == nil || len(in.Vals) != 1 {
			return "", false
		}
		v := in.Vals[0].Get("path")
		return v.Str(), v != nil
	}
	return []paramHost{
		{"MethodPath", func(p string) string { return "JSIGHT 0.3\nGET " + p + "\n  200 any\n" }, getPath, nil},
		{"UrlPath", func(p string) string { return "JSIGHT 0.3\nURL " + p + "\n  GET\n    200 any\n" }, getPath, nil},
	}
}

// c17Chars: every ASCII character but LF / CR, and one valid UTF-8 character for every (lead byte,
// second byte) pair.
func c17Chars() []string {
	var out []string
	for b := 1; b < 0x80; b++ {
		if b != '\n' && b != '\r' {
			out = append(out, string([]byte{byte(b)}))
		}
	}
	for lead := 0xC2; lead <= 0xF4; lead++ {
		for cont := 0x80; cont <= 0xBF; cont++ {
			bs := []byte{byte(lead), byte(cont)}
			if lead >= 0xE0 {
				bs = append(bs, 0x85) // a later continuation byte that is NEL / NBSP in Latin-1
			}
			if lead >= 0xF0 {
				bs = append(bs, 0xA0)
			}
			if utf8.Valid(bs) {
				out = append(out, string(bs))
			}
		}
	}
	return out
}

func bareOK(s string) bool {
	if s == "" || s[0] == '"' || strings.ContainsAny(s, " \t#") {
		return false
	}
	for i := 0; i < len(s); i++ {
		if s[i] < 0x20 || s[i] == 0x7f {
			return false // control characters: only the quoted spelling is judged
		}
	}
	if strings.HasPrefix(s, "//") || strings.HasPrefix(s, "/*") {
		return false // would start an annotation
	}
	return true
}

func runC17(c *fw.Ctx) {
	maxLen := 4
	fnLen := 6
	if !c.Quick() {
		maxLen, fnLen = 5, 7
	}
	opt := drv.Options{FixedSeed: true}
	interesting := func(s string) bool { return strings.ContainsAny(s, "\"\\ \t#/*") }

	read := func(h paramHost, text string) (val string, o drv.Outcome, found bool) {
		// the file object is read twice: "what is written is what the catalog has" also the second
		// time, and reading does not write to what was written
		var o2 drv.Outcome
		var intact bool
		o, o2, intact = drv.RunFileTwice("root.jst", text, opt)
		if !o.Crashed() && !o2.Crashed() && (!intact || o.Kind != o2.Kind || o.JSON != o2.JSON) {
			c.Violate("second-read-differs", "C17:second-read:"+h.name, fmt.Sprintf("%s: the same file object read twice gives %s and then %s (input bytes intact: %v)", h.name, o.Short(), o2.Short(), intact), map[string]interface{}{"text": text})
		}
		if !o.OK() {
			return "", o, false
		}
		cat, _, err := jsonx.Parse([]byte(o.JSON))
		if err != nil {
			return "", o, false
		}
		val, found = h.get(cat)
		return val, o, found
	}

	var rec func(prefix string, n int, f func(s string))
	rec = func(prefix string, n int, f func(s string)) {
		if prefix != "" {
			f(prefix)
		}
		if n == 0 {
			return
		}
		for _, a := range c17Alpha {
			rec(prefix+a, n-1, f)
		}
	}

	// end to end, quoted and bare
	e2e := func(s string) {
		if c.Expired() {
			return
		}
		type hv struct {
			h     paramHost
			value string
		}
		var hs []hv
		for _, h := range paramHosts() {
			hs = append(hs, hv{h, s})
		}
		for _, h := range pathHosts() {
			hs = append(hs, hv{h, "/" + s})
		}
		for _, x := range hs {
			if !c.Next() {
				continue
			}
			h, want := x.h, x.value
			if h.ok != nil && !h.ok(want) {
				continue
			}
			c.Count("evaluations", 1)
			if interesting(want) {
				c.Distinct(h.name + "|" + want)
			}
			q := escQuoted(want)
			got, o, found := read(h, h.doc(q))
			if o.Crashed() {
				c.Count("skipped_crash", 1)
				continue
			}
			bad := ""
			switch {
			case !o.OK():
				if strings.Contains(h.name, "Path") {
					// a path has rules of its own ({} parameters, similar paths); rejection is the host's right
					c.Count("rejected_by_path_rules", 1)
				} else {
					bad = fmt.Sprintf("%s %s is rejected: %s", h.name, q, o.Short())
				}
			case !found:
				bad = fmt.Sprintf("%s %s: accepted but the field is absent", h.name, q)
			case got != want:
				bad = fmt.Sprintf("%s %s reads back as %q, written %q", h.name, q, got, want)
			}
			if bad != "" {
				c.Violate("quoted-roundtrip", "C17:roundtrip:"+h.name+":"+valueClass(want), bad, map[string]interface{}{"host": h.name, "value": want, "text": h.doc(q)})
				continue
			}
			if o.OK() && bareOK(want) {
				gb, ob, fb := read(h, h.doc(want))
				if ob.Crashed() {
					continue
				}
				if !(ob.OK() && fb && gb == got) {
					c.Violate("bare-vs-quoted", "C17:bare:"+h.name+":"+valueClass(want), fmt.Sprintf("%s: quoted %s gives %q, bare %s gives %s %q", h.name, q, got, want, ob.Kind, gb), map[string]interface{}{"host": h.name, "value": want})
				}
			}
			// the blanks between the keyword and the parameter are not part of the value: every run of
			// 1..2 blanks and tabs gives the same reading, quoted and bare (values of length <= 2)
			if len(s) <= 2 && o.OK() {
				for _, sep := range []string{"  ", "\t", " \t", "\t ", "\t\t"} {
					for _, src := range []string{q, want} {
						if src == want && !bareOK(want) {
							continue
						}
						text := strings.Replace(h.doc(src), " "+src, sep+src, 1)
						g2, o2, f2 := read(h, text)
						if o2.Crashed() {
							continue
						}
						if !(o2.OK() && f2 && g2 == got) {
							c.Violate("separator-changes-value", "C17:separator:"+h.name+":"+fmt.Sprintf("%q", sep), fmt.Sprintf("%s: %s after the separator %q reads as %s %q, after one blank as %q", h.name, src, sep, o2.Kind, g2, got), map[string]interface{}{"host": h.name, "value": want, "text": text})
						}
					}
				}
			}
			if interesting(want) {
				c.Sample(h.name, 1, map[string]interface{}{"host": h.name, "source": q, "catalog_value": got})
			}
		}
	}
	rec("", maxLen, e2e)
	// every byte: each ASCII character except the line ends, and every UTF-8 lead byte with every
	// continuation byte in second position (all of U+0080..U+07FF, one character per (lead,
	// continuation) pair of the 3- and 4-byte forms), inside a value and at its start
	for _, ch := range c17Chars() {
		e2e("a" + ch + "b")
		e2e(ch + "a")
	}

	// malformed forms
	hosts := append(paramHosts(), pathHosts()...)
	rec("", maxLen-1, func(s string) {
		for _, h := range hosts {
			pre := ""
			if strings.Contains(h.name, "Path") {
				pre = "/"
			}
			// unterminated quote
			if c.Next() {
				c.Count("evaluations", 1)
				body := strings.NewReplacer("\\", "\\\\", "\"", "\\\"").Replace(pre + s)
				// under every line-end convention: the quote is unterminated where its line ends
				for _, nl := range []string{"\n", "\r\n", "\r"} {
					text := strings.ReplaceAll(h.doc("\""+body), "\n", nl)
					o := drv.RunMem("root.jst", text, opt)
					start := strings.Index(text, "\""+body)
					lineEnd := start + strings.IndexAny(text[start:], "\r\n")
					if !o.Crashed() {
						if !o.Rejected() {
							c.Violate("unterminated-quote-accepted", "C17:unterminated:"+h.name, fmt.Sprintf("%s \"%s (no closing quote, line end %q) is %s", h.name, body, nl, o.Short()), map[string]interface{}{"text": text})
						} else if o.Index < start || o.Index > lineEnd {
							c.Violate("unterminated-quote-mislocated", "C17:unterminated-loc:"+h.name, fmt.Sprintf("%s \"%s (line end %q): diagnostic at %d, the parameter spans %d..%d", h.name, body, nl, o.Index, start, lineEnd), map[string]interface{}{"text": text})
						}
					}
				}
			}
			// backslash before another character, at every position
			for pos := 0; pos <= len(s); pos++ {
				for _, bad := range []string{"a", "#", "/", "*", " ", "@", "[", "é", "n", "t"} {
					if !c.Next() {
						continue
					}
					c.Count("evaluations", 1)
					esc := strings.NewReplacer("\\", "\\\\", "\"", "\\\"")
					body := esc.Replace(pre+s[:pos]) + "\\" + bad + esc.Replace(s[pos:])
					text := h.doc("\"" + body + "\"")
					o := drv.RunMem("root.jst", text, opt)
					if o.Crashed() {
						continue
					}
					at := strings.Index(text, "\""+body) + 1 + len(esc.Replace(pre+s[:pos]))
					if !o.Rejected() {
						c.Violate("bad-escape-accepted", "C17:bad-escape:"+h.name, fmt.Sprintf("%s \"%s\" (backslash before %q) is %s", h.name, body, bad, o.Short()), map[string]interface{}{"text": text})
					} else if o.Index != at && o.Index != at+1 {
						c.Violate("bad-escape-mislocated", "C17:bad-escape-loc:"+h.name, fmt.Sprintf("%s \"%s\": diagnostic at %d, the bad escape is at %d", h.name, body, o.Index, at), map[string]interface{}{"text": text})
					}
				}
			}
		}
	})

	// notation and type parameters: quoting a value that needs no quotes changes nothing
	for _, host := range []string{"TYPE @x %s", "Request %s", "200 %s", "Body %s"} {
		for _, val := range []string{"regex", "any", "empty", "jsight", "@t", "[@t]"} {
			for _, which := range []string{"value", "name"} {
				if !c.Next() {
					continue
				}
				c.Count("evaluations", 1)
				mk := func(v string) string {
					line := fmt.Sprintf(host, v)
					body := ""
					switch val {
					case "regex":
						body = "\n    /ab+/"
					case "jsight":
						body = "\n    {}"
					}
					if strings.HasPrefix(host, "TYPE") {
						if val == "@t" || val == "[@t]" {
							return "" // a TYPE takes one name
						}
						name := "@x"
						if which == "name" {
							name = "\"@x\""
							line = strings.Replace(line, "@x", name, 1)
						}
						return "JSIGHT 0.3\nTYPE @t any\n" + line + strings.ReplaceAll(body, "    ", "  ") + "\n"
					}
					pre := "JSIGHT 0.3\nTYPE @t\n  {}\nPOST /h\n"
					switch {
					case strings.HasPrefix(host, "Request"):
						return pre + "  " + line + body + "\n  200 any\n"
					case strings.HasPrefix(host, "200"):
						return pre + "  " + line + body + "\n"
					default:
						return pre + "  200\n    " + line + strings.ReplaceAll(body, "    ", "      ") + "\n"
					}
				}
				bare, quoted := mk(val), mk("\""+val+"\"")
				if which == "name" {
					quoted = mk(val)
					bare = strings.Replace(quoted, "\"@x\"", "@x", 1)
				}
				if bare == "" || bare == quoted {
					continue
				}
				c.Distinct("notation:" + host + val + which)
				a, b := drv.RunMem("root.jst", bare, opt), drv.RunMem("root.jst", quoted, opt)
				if j, same := sameResult(a, b); j && !same {
					c.Violate("bare-vs-quoted", "C17:bare-notation:"+strings.Fields(host)[0]+":"+val, fmt.Sprintf("%s: bare gives %s, quoted gives %s", fmt.Sprintf(host, val), a.Short(), b.Short()), map[string]interface{}{"bare": bare, "quoted": quoted})
				}
			}
		}
	}

	// the unescape function against the reference
	rec("", fnLen, func(s string) {
		if !c.Next() {
			return
		}
		c.Count("evaluations", 1)
		c.Count("unescape_function_calls", 2)
		src := escQuoted(s)
		if got := string(directive.VerifUnescapeParameter([]byte(src))); got != s {
			c.Violate("unescape-function", "C17:unescape-fn:"+valueClass(s), fmt.Sprintf("unescape(%s) = %q, want %q", src, got, s), map[string]interface{}{"source": src})
		}
		if bareOK(s) {
			if got := string(directive.VerifUnescapeParameter([]byte(s))); got != s {
				c.Violate("unescape-function-bare", "C17:unescape-fn-bare:"+valueClass(s), fmt.Sprintf("unescape(%s) = %q (bare values are taken as they are)", s, got), map[string]interface{}{"source": s})
			}
		}
	})
}

// valueClass names what is special about a value (the locator of a round-trip defect).
func valueClass(s string) string {
	var cl []string
	if strings.Contains(s, "\\\\") {
		cl = append(cl, "two-backslashes")
	} else if strings.Contains(s, "\\") {
		cl = append(cl, "backslash")
	}
	if strings.Contains(s, "\"") {
		cl = append(cl, "quote")
	}
	if strings.Contains(s, "\t") {
		cl = append(cl, "tab")
	}
	if strings.Contains(s, "é") {
		cl = append(cl, "non-ascii")
	}
	if len(cl) == 0 {
		return "plain"
	}
	return strings.Join(cl, "+")
}
