package checks

import (
	"fmt"
	"os"
	"path/filepath"
	"sort"
	"strings"
	"time"

	"github.com/jsightapi/jsight-api-go-library/core"
	"github.com/jsightapi/jsight-schema-go-library/fs"

	"verif/internal/doc"
	"verif/internal/drv"
	"verif/internal/fw"
)

func init() {
	fw.Register(&fw.Check{
		ID: "C18", Level: "model_checking",
		Rule:   "ban sets = none, all 30 singletons, all pairs from {INCLUDE, MACRO, PASTE, TYPE, Body, Path} (thorough: all 435 pairs) x documents = every closed selection of 1..2 pool blocks, each also with every one of its declarations in turn moved into an included file, plus INCLUDE-of-a-missing-file probes; oracle: a banned kind occurs (directly, through a live PASTE, in an included file) => rejected with 'not allowed' located inside an occurrence of a banned kind and before the named file is touched; no banned kind occurs => result identical to the run without the option; non-trivial = (document, ban set) where a banned kind occurs; distinct = distinct (document, ban set) ; option values are reusable: for every ordered pair X != Y of the six core kinds, a project with Y and without X, first with [ban X (shared value), ban Y] => 'not allowed', then with the shared value alone => exactly the result without the option",
		Assume: []string{"a banned kind that occurs only inside a never-pasted macro body is not judged (the property lists written directly / by PASTE / included file)"},
		Run:    runC18, QuickCap: 8 * time.Minute, ThoroughCap: 40 * time.Minute,
	})
}

var allKinds = []string{"JSIGHT", "INFO", "Title", "Version", "Description", "SERVER", "BaseUrl", "URL", "GET", "POST", "PUT", "PATCH", "DELETE", "Body", "Request",
	"HTTP-response-code", "Path", "Headers", "Query", "TYPE", "ENUM", "MACRO", "PASTE", "INCLUDE", "Protocol", "Method", "Params", "Result", "TAG", "Tags"}

func kindOf(kw string) string {
	if len(kw) == 3 && kw[0] >= '1' && kw[0] <= '5' {
		return "HTTP-response-code"
	}
	return kw
}

// occurrences returns, per kind, the nodes of that kind that are live: written outside macro
// bodies, or inside the body of a macro reachable through PASTE from live code.
func occurrences(nn []*doc.Node) (live map[string][]*doc.Node, deadOnly map[string]bool) {
	macros := map[string]*doc.Node{}
	for _, n := range nn {
		if n.Kw == "MACRO" && len(n.Params) > 0 {
			macros[n.Params[0]] = n
		}
	}
	live = map[string][]*doc.Node{}
	all := map[string]bool{}
	doc.Walk(nn, func(n *doc.Node, _ int, _ *doc.Node) { all[kindOf(n.Kw)] = true })
	visited := map[string]bool{}
	var visit func(nn []*doc.Node)
	visit = func(nn []*doc.Node) {
		for _, n := range nn {
			if n.Kw == "MACRO" {
				live["MACRO"] = append(live["MACRO"], n)
				continue // body is live only when pasted
			}
			live[kindOf(n.Kw)] = append(live[kindOf(n.Kw)], n)
			if n.Kw == "PASTE" && len(n.Params) > 0 {
				if m := macros[n.Params[0]]; m != nil && !visited[n.Params[0]] {
					visited[n.Params[0]] = true
					visit(m.Kids)
				}
			}
			visit(n.Kids)
		}
	}
	visit(nn)
	deadOnly = map[string]bool{}
	for k := range all {
		if len(live[k]) == 0 {
			deadOnly[k] = true
		}
	}
	return live, deadOnly
}

func runC18(c *fw.Ctx) {
	if ioFaultHook != nil {
		ioFaultHook(c, "C18")
	}
	dir := drv.NewDir(fw.Scratch("c18"))
	defer os.RemoveAll(filepath.Dir(dir.Path))
	defer dir.Close()
	var banSets [][]string
	banSets = append(banSets, nil)
	for _, k := range allKinds {
		banSets = append(banSets, []string{k})
	}
	if c.Quick() {
		core6 := []string{"INCLUDE", "MACRO", "PASTE", "TYPE", "Body", "Path"}
		for i := range core6 {
			for j := i + 1; j < len(core6); j++ {
				banSets = append(banSets, []string{core6[i], core6[j]})
			}
		}
	} else {
		for i := range allKinds {
			for j := i + 1; j < len(allKinds); j++ {
				banSets = append(banSets, []string{allKinds[i], allKinds[j]})
			}
		}
	}
	type variant struct {
		label string
		nodes []*doc.Node // whole logical document (for occurrence computation)
		proj  drv.Project
		spans func(kind string) [][3]interface{} // (file, begin, end) of live occurrences
	}
	judge := func(v variant, ban []string, noOpt drv.Outcome) {
		c.Count("evaluations", 1)
		opt := drv.Options{FixedSeed: true, Banned: ban}
		var o drv.Outcome
		if len(v.proj.Files) == 1 {
			o = drv.RunMem("root.jst", v.proj.Files["root.jst"], opt)
		} else {
			o, _ = dir.Run(v.proj, opt, false)
		}
		if o.Crashed() || noOpt.Crashed() {
			c.Count("skipped_crash", 1)
			return
		}
		live, dead := occurrences(v.nodes)
		var hit []string
		deadHit := false
		for _, b := range ban {
			switch {
			case len(live[b]) > 0:
				hit = append(hit, b)
			case dead[b] && (b == "PASTE" || b == "INCLUDE" || b == "MACRO"):
				// the three kinds that are dealt with while scanning are "written directly" wherever
				// they stand, also in the body of a macro nobody pastes: that is an occurrence
				hit = append(hit, b)
			case dead[b]:
				deadHit = true // an ordinary kind only inside a never-pasted macro body: left open
			}
		}
		bs := strings.Join(ban, "+")
		if len(hit) > 0 {
			c.Distinct(v.label + "|" + bs)
			bad := ""
			switch {
			case !o.Rejected():
				bad = fmt.Sprintf("banned kind %v occurs but the project is %s", hit, o.Short())
			case !strings.Contains(o.Msg, "not allowed"):
				bad = fmt.Sprintf("banned kind %v occurs but the diagnostic is %q (no 'not allowed')", hit, o.Msg)
			default:
				in := false
				for _, b := range ban { // an occurrence inside a never-pasted macro is an occurrence, too
					for _, sp := range v.spans(b) {
						f, b0, e0 := sp[0].(string), sp[1].(int), sp[2].(int)
						if (o.File == "" || filepath.Base(o.File) == f) && o.Index >= b0 && o.Index < e0 {
							in = true
						}
					}
				}
				if !in {
					bad = fmt.Sprintf("'not allowed' diagnostic at %s:%d is not inside an occurrence of a banned kind %v", filepath.Base(o.File), o.Index, hit)
				}
			}
			if bad != "" {
				c.Violate("ban-not-enforced", "C18:ban:"+strings.Join(hit, "+")+":"+v.label[strings.LastIndexByte(v.label, ' ')+1:], v.label+" ban="+bs+": "+bad, map[string]interface{}{"project": v.proj, "banned": ban})
			} else {
				c.Sample("banned "+hit[0], 1, map[string]interface{}{"doc": v.label, "ban": ban, "diagnostic": o.Short()})
			}
			return
		}
		if deadHit {
			c.Count("not_judged_dead_macro_only", 1)
			return
		}
		// nothing banned occurs: identical to the run without the option
		same := o.Kind == noOpt.Kind && o.JSON == noOpt.JSON && o.Msg == noOpt.Msg && o.Index == noOpt.Index && o.Line == noOpt.Line
		if !same {
			c.Violate("option-changes-unrelated-result", "C18:unrelated:"+bs, fmt.Sprintf("%s ban=%s: no banned kind occurs, yet the result differs from the run without the option: %s vs %s", v.label, bs, noOpt.Short(), o.Short()), map[string]interface{}{"project": v.proj, "banned": ban})
		}
	}

	emit := func(v variant) {
		var noOpt drv.Outcome
		have := false
		for _, ban := range banSets {
			if !c.Next() {
				continue
			}
			c.Describe(v.label + " ban=" + strings.Join(ban, "+"))
			if !have {
				if len(v.proj.Files) == 1 {
					noOpt = drv.RunMem("root.jst", v.proj.Files["root.jst"], drv.Options{FixedSeed: true})
				} else {
					noOpt, _ = dir.Run(v.proj, drv.Options{FixedSeed: true}, false)
				}
				have = true
			}
			if len(ban) == 0 {
				c.Count("evaluations", 1)
				continue
			}
			if strings.HasPrefix(v.label, "missing-include") && !contains(ban, "INCLUDE") {
				continue // two faults (a missing file and another banned kind): which is reported first is not judged
			}
			judge(v, ban, noOpt)
		}
	}

	docSets(false, func(name string, blocks []doc.Block) {
		if c.Expired() {
			return
		}
		nodes := doc.Assemble(blocks)
		r := doc.Render(nodes, doc.DefaultStyle())
		spansOf := func(rs map[string]*doc.Rendered) func(kind string) [][3]interface{} {
			return func(kind string) [][3]interface{} {
				var out [][3]interface{}
				for f, rr := range rs {
					for _, sp := range rr.Spans {
						if kindOf(sp.Node.Kw) == kind {
							out = append(out, [3]interface{}{f, sp.Begin, sp.End})
						}
					}
				}
				return out
			}
		}
		emit(variant{label: name + " direct", nodes: nodes, proj: drv.Single(r.Text), spans: spansOf(map[string]*doc.Rendered{"root.jst": r})})
		// each declaration in turn moved to an included file (so that every kind of declaration is
		// also the first thing read after the included file ends); the label of the last one stays
		for k := len(nodes) - 1; k >= 1; k-- {
			moved := nodes[k : k+1]
			inc := doc.N("INCLUDE", "inc.jst")
			rootNodes := append(append(append([]*doc.Node{}, nodes[:k]...), inc), nodes[k+1:]...)
			rr, ri := doc.Render(rootNodes, doc.DefaultStyle()), doc.Render(moved, doc.DefaultStyle())
			logical := append(append([]*doc.Node{}, nodes...), inc)
			label := name + " included"
			if k != len(nodes)-1 {
				label = fmt.Sprintf("%s declaration-%d included", name, k)
			}
			emit(variant{label: label, nodes: logical, proj: drv.Project{Root: "root.jst", Files: map[string]string{"root.jst": rr.Text, "inc.jst": ri.Text}},
				spans: spansOf(map[string]*doc.Rendered{"root.jst": rr, "inc.jst": ri})})
		}
	})
	// INCLUDE of a file that does not exist: with INCLUDE banned the diagnostic must be 'not allowed', not 'isn't exists'
	for _, where := range []string{"top", "nested"} {
		var nodes []*doc.Node
		if where == "top" {
			nodes = []*doc.Node{doc.Jsight(), doc.N("TYPE", "@t", "any"), doc.N("INCLUDE", "missing.jst")}
		} else {
			nodes = []*doc.Node{doc.Jsight(), doc.N("GET", "/x").WithKids(doc.N("200", "any"), doc.N("INCLUDE", "missing.jst"))}
		}
		r := doc.Render(nodes, doc.DefaultStyle())
		emit(variant{label: "missing-include " + where, nodes: nodes, proj: drv.Project{Root: "root.jst", Files: map[string]string{"root.jst": r.Text, "other.jst": "TYPE @o any\n"}},
			spans: func(kind string) [][3]interface{} {
				var out [][3]interface{}
				for _, sp := range r.Spans {
					if kindOf(sp.Node.Kw) == kind {
						out = append(out, [3]interface{}{"root.jst", sp.Begin, sp.End})
					}
				}
				return out
			}})
	}
	// a banned kind "occurs" when a DIRECTIVE of that kind occurs: the same word as a parameter
	// value, in an annotation or inside a body is not an occurrence (every kind's keyword, bare and
	// quoted, in every value position; ban = that kind alone)
	for _, k := range allKinds {
		word := k
		if k == "HTTP-response-code" {
			word = "200"
		}
		for qi, q := range []string{word, "\"" + word + "\""} {
			nodes := []*doc.Node{doc.Jsight(),
				doc.N("INFO").WithKids(doc.N("Title", q), doc.N("Version", q)),
				doc.N("SERVER", "@s").WithAnn(word + " server").WithKids(doc.N("BaseUrl", q)),
				doc.N("TYPE", "@w").WithBody("{\n  \"" + word + "\": \"" + word + "\" // " + word + "\n}"),
				doc.N("URL", "/r").WithParen().WithKids(doc.N("Protocol", "json-rpc-2.0"), doc.N("Method", q).WithAnn(word)),
				doc.N("GET", "/w").WithKids(doc.N("Query", q).WithBody("{}"), doc.N("200", "any")),
			}
			// the document must not hold a directive of the kind itself
			var keep []*doc.Node
			for _, n := range nodes {
				has := false
				doc.Walk([]*doc.Node{n}, func(x *doc.Node, _ int, _ *doc.Node) {
					if kindOf(x.Kw) == k {
						has = true
					}
				})
				if !has {
					keep = append(keep, n)
				}
			}
			r := doc.Render(keep, doc.DefaultStyle())
			v := variant{label: fmt.Sprintf("keyword-as-value %s quoted=%d direct", k, qi), nodes: keep, proj: drv.Single(r.Text), spans: func(kind string) [][3]interface{} { return nil }}
			var noOpt drv.Outcome
			have := false
			if !c.Next() {
				continue
			}
			c.Describe(v.label)
			if !have {
				noOpt = drv.RunMem("root.jst", r.Text, drv.Options{FixedSeed: true})
				have = true
			}
			judge(v, []string{k}, noOpt)
		}
	}
	_ = sort.Strings

	// an option is a value of the public API and may be handed to several projects: a project
	// that contains none of the kinds banned FOR IT gives exactly the result it gives without the
	// option, also when the option value has served another project before, together with a
	// further ban option (every ordered pair of kinds X != Y from the six core kinds)
	kindDocs := map[string]string{
		"MACRO": "JSIGHT 0.3\nMACRO @m\n(\n  200 any\n)\nGET /m\n  201 any\n",
		"PASTE": "JSIGHT 0.3\nGET /m\n  PASTE @m\nMACRO @m\n(\n  200 any\n)\n",
		"TYPE":  "JSIGHT 0.3\nTYPE @t any\n",
		"Body":  "JSIGHT 0.3\nPOST /b\n  Request\n    Body any\n  200 any\n",
		"Path":  "JSIGHT 0.3\nGET /p/{id}\n  Path\n    {\"id\": 1}\n  200 any\n",
	}
	runWith := func(text string, oo ...core.Option) string {
		cc := core.NewJApiCore(fs.NewFile("root.jst", []byte(text)), append([]core.Option{core.WithFixedSeedForRegex()}, oo...)...)
		if je := cc.ValidateJAPI(); je != nil {
			return fmt.Sprintf("err %d %s", je.Index(), je.Msg)
		}
		b, err := cc.Catalog().ToJson()
		if err != nil {
			return "sererr " + err.Error()
		}
		return string(b)
	}
	core6 := []string{"INCLUDE", "MACRO", "PASTE", "TYPE", "Body", "Path"}
	for _, x := range core6 {
		for _, y := range core6 {
			text, ok := kindDocs[y]
			if x == y || !ok || !c.Next() {
				continue
			}
			if x == "MACRO" && y == "PASTE" || x == "PASTE" && y == "MACRO" {
				continue // each of the two documents holds both kinds
			}
			c.Count("evaluations", 3)
			c.Distinct("shared-option|" + x + "|" + y)
			plain := runWith(text)
			shared := core.WithBannedDirectives(drv.EnumOf(x))
			first := runWith(text, shared, core.WithBannedDirectives(drv.EnumOf(y)))
			if !strings.Contains(first, "not allowed") {
				c.Violate("ban-not-enforced", "C18:ban:shared-value:"+y, fmt.Sprintf("a project with a %s directive, %s banned by a shared option value and %s by a second option: %s", y, x, y, clipS(first, 160)), map[string]interface{}{"text": text, "banned": []string{x, y}})
				continue
			}
			if again := runWith(text, shared); again != plain {
				c.Violate("option-changes-unrelated-result", "C18:unrelated:shared-value", fmt.Sprintf("a project without any %s directive, with only %s banned by an option value that served another project (there together with a ban of %s): %s; without the option: %s", x, x, y, clipS(again, 160), clipS(plain, 160)), map[string]interface{}{"text": text, "banned": []string{x}})
			}
		}
	}
}

func contains(ss []string, x string) bool {
	for _, s := range ss {
		if s == x {
			return true
		}
	}
	return false
}
