//go:build verif && verifdet

package checks

import (
	"crypto/sha256"
	"encoding/hex"
	"encoding/json"
	"fmt"
	"os"
	"os/exec"
	"path/filepath"
	"strings"
	"time"

	"verif/internal/doc"
	"verif/internal/drv"
	"verif/internal/fw"

	"github.com/jsightapi/jsight-api-go-library/core"
	"github.com/jsightapi/jsight-api-go-library/directive"
	"github.com/jsightapi/jsight-api-go-library/kit"
	"github.com/jsightapi/jsight-api-go-library/verifshim/vdet"
	"github.com/jsightapi/jsight-schema-go-library/fs"
)

func init() {
	fw.Register(&fw.Check{
		ID: "C03", Level: "model_checking",
		Rule:   "(a) environment-answer DFS over map-iteration orders: every `range` over a map in the library (found by the typed instrumenter: 4 sites today) is an explicit choice point; for multi-fault / multi-entry documents (2-3 faulty macros, 2-3 unused Path properties, 3 enums used by 3 types, their pairwise combinations, every single pool block; and 2-3 included files of identical layout each holding the same fault; every single-file case of the shared streams: pool documents in several orders, all sequences of <= 2 directive variants, paste graphs, 2-3 simultaneous instances of every fault kind about named things, thorough: corpus and names) ALL permutations at every choice point are executed (full product up to 20000 executions per document, beyond that every execution with <= 2 choice points departing from the canonical order) and verdict, message, index, line, trace and JSON bytes must be identical; (a') ALL sequences of three runs over 4 projects x 6 option lists in which the option values are shared between the runs, against the same runs with freshly made option values; (b) every project run twice in one process; (c) every project run in two fresh processes; (d) every ordered pair (A, B) of a 34-project set (accepted and rejected, same file names with LF / CRLF / CR content, includes with equal relative names) run A then B in one process: B's result must equal B's result in a fresh process; non-trivial = execution with at least one choice point holding >= 2 keys, or a pair; distinct = distinct (document, choice vector) and pairs ; the pair projects also without any option: twice in this process, two fresh processes, process vs in-process",
		Assume: []string{"map iterations inside the pinned schema library are not instrumented (only this repository's packages are); interference between projects processed concurrently is C16's harness H3"},
		Run:    runC03, QuickCap: 10 * time.Minute, ThoroughCap: 40 * time.Minute,
	})
	fw.Solo = func(projectJSON string) string {
		var p struct {
			Proj drv.Project `json:"proj"`
			Opt  drv.Options `json:"opt"`
		}
		if err := json.Unmarshal([]byte(projectJSON), &p); err != nil {
			return "bad input"
		}
		d := drv.NewDir(fw.Scratch("solo"))
		defer os.RemoveAll(filepath.Dir(d.Path))
		o, _ := d.Run(p.Proj, p.Opt, true)
		return digestOutcome(o, d.Path)
	}
}

// digestOutcome is everything C03 compares, with scratch paths normalised.
func digestOutcome(o drv.Outcome, scratch string) string {
	norm := func(s string) string {
		// paths of the scratch directory differ between runs: keep what follows the project directory
		for {
			i := strings.Index(s, "/proj-")
			if i < 0 {
				return s
			}
			j := strings.LastIndexAny(s[:i], "\n :")
			k := i + 6
			for k < len(s) && s[k] != '/' {
				k++
			}
			if k+3 < len(s) && s[k+1] == 'w' { // "/wN/"
				k += 3
			}
			s = s[:j+1] + "<proj>" + s[k:]
		}
	}
	return fmt.Sprintf("%s|%s|%d|%d|%s|%s|%s|%s|%s", o.Kind, norm(o.Msg), o.Index, o.Line, o.Quote, norm(o.ErrText), o.JSON, o.Title, o.Panic)
}

func lehmer(idx, n int) []int {
	elems := make([]int, n)
	for i := range elems {
		elems[i] = i
	}
	fact := 1
	for i := 2; i < n; i++ {
		fact *= i
	}
	out := make([]int, 0, n)
	for i := n - 1; i >= 0; i-- {
		q := 0
		if fact > 0 {
			q = idx / fact
			idx %= fact
		}
		out = append(out, elems[q])
		elems = append(elems[:q], elems[q+1:]...)
		if i > 0 {
			fact /= i
		}
	}
	return out
}

func factorial(n int) int {
	f := 1
	for i := 2; i <= n; i++ {
		f *= i
	}
	return f
}

type choicePoint struct {
	site string
	n    int
}

// runWithChoices executes a document under a choice vector; returns the outcome and the trace of choice points.
func runWithChoices(text string, choices []int) (drv.Outcome, []choicePoint) {
	var trace []choicePoint
	vdet.SetChooser(func(site string, n int) []int {
		i := len(trace)
		trace = append(trace, choicePoint{site, n})
		if i < len(choices) && choices[i] != 0 {
			return lehmer(choices[i]%factorial(n), n)
		}
		return nil
	})
	defer vdet.SetChooser(nil)
	o := drv.RunMemFull("root.jst", text, drv.Options{FixedSeed: true})
	return o, trace
}

func detDocs() map[string]string {
	mac := func(name, body string) string { return "MACRO " + name + "\n(\n" + body + ")\n" }
	selfA := mac("@ma", "  200 any\n  PASTE @ma\n")
	selfB := mac("@mb", "  404 any\n  PASTE @mb\n")
	selfC := mac("@mc", "  500 any\n  PASTE @mc\n")
	nameless := mac("@mn", "  200 any\n  PASTE\n")
	good := mac("@mg", "  204 empty\n")
	unused2 := "GET /p/{id}\n  Path\n    {\n      \"id\": 1,\n      \"zeta\": 2,\n      \"alpha\": 3\n    }\n  200 any\n"
	unused3 := "GET /q/{id}\n  Path\n    {\n      \"id\": 1,\n      \"u1\": 2,\n      \"u2\": 3,\n      \"u3\": 4\n    }\n  200 any\n"
	enums := "ENUM @e1\n  [1, 2]\nENUM @e2\n  [\"a\"]\nENUM @e3\n  [true]\n" +
		"TYPE @t1\n  {\n    \"a\": 1 // {enum: @e1}\n  }\nTYPE @t2\n  {\n    \"b\": \"a\", // {enum: @e2}\n    \"c\": @t1\n  }\nTYPE @t3\n  {\n    \"d\": true // {enum: @e3}\n  }\nGET /e\n  200 @t2\n"
	parts := map[string]string{
		"two-self-recursive-macros": selfA + selfB, "three-self-recursive-macros": selfA + selfB + selfC,
		"recursive-and-nameless": selfA + nameless + good, "nameless-and-good": nameless + good + "GET /m\n  PASTE @mg\n",
		"two-unused-path-properties": unused2, "three-unused-path-properties": unused3, "three-enums-three-types": enums,
	}
	out := map[string]string{}
	var names []string
	for k := range parts {
		names = append(names, k)
	}
	sortStrings(names)
	for i, a := range names {
		out[a] = "JSIGHT 0.3\n" + parts[a]
		for _, b := range names[i+1:] {
			out[a+"+"+b] = "JSIGHT 0.3\n" + parts[a] + parts[b]
		}
	}
	for _, b := range doc.Pool() {
		out["pool:"+b.Name] = doc.Text(doc.Assemble(doc.Closure([]doc.Block{b})))
	}
	return out
}

func pairProjects() []struct {
	name string
	proj drv.Project
} {
	var out []struct {
		name string
		proj drv.Project
	}
	add := func(n string, p drv.Project) {
		out = append(out, struct {
			name string
			proj drv.Project
		}{n, p})
	}
	base := "JSIGHT 0.3\nINFO\n  Title \"A\"\nTYPE @t\n  {\n    \"id\": 1\n  }\nGET /x\n  200 @t\n"
	bad := "JSIGHT 0.3\nTYPE @t\n  {\n    \"id\": 1\n  }\n\n\nGET /x\n  200 @nope\n"
	bad2 := "JSIGHT 0.3\nTYPE @t any\n\nTitle \"misplaced\"\n"
	for _, nl := range []string{"\n", "\r\n", "\r"} {
		add(fmt.Sprintf("ok%q", nl), drv.Single(strings.ReplaceAll(base, "\n", nl)))
		add(fmt.Sprintf("dangling%q", nl), drv.Single(strings.ReplaceAll(bad, "\n", nl)))
		add(fmt.Sprintf("context%q", nl), drv.Single(strings.ReplaceAll(bad2, "\n", nl)))
		add(fmt.Sprintf("include-fault%q", nl), drv.Project{Root: "root.jst", Files: map[string]string{
			"root.jst": strings.ReplaceAll("JSIGHT 0.3\n\nINCLUDE inc.jst\n", "\n", nl), "inc.jst": strings.ReplaceAll("TYPE @i any\n\n\n$\n", "\n", nl)}})
		add(fmt.Sprintf("include-ok%q", nl), drv.Project{Root: "root.jst", Files: map[string]string{
			"root.jst": strings.ReplaceAll("JSIGHT 0.3\nINCLUDE inc.jst\n", "\n", nl), "inc.jst": strings.ReplaceAll("TYPE @i any\nGET /i\n  200 @i2\nTYPE @i2\n  1\n", "\n", nl)}})
	}
	add("include-other-content", drv.Project{Root: "root.jst", Files: map[string]string{"root.jst": "JSIGHT 0.3\nINCLUDE inc.jst\n", "inc.jst": "TYPE @other any\n"}})
	add("include-missing", drv.Project{Root: "root.jst", Files: map[string]string{"root.jst": "JSIGHT 0.3\nINCLUDE inc.jst\n"}})
	add("regex", drv.Single("JSIGHT 0.3\nTYPE @r regex\n  /[a-z]{4}[0-9]{2}/\nGET /r\n  200 regex\n    /x{2,5}/\n"))
	add("regex-twice", drv.Single("JSIGHT 0.3\nTYPE @r1 regex\n  /[a-z]{4}[0-9]{2}/\nTYPE @r2 regex\n  /[a-z]{4}[0-9]{2}/\nTYPE @u\n  {\n    \"a\": @r1,\n    \"b\": @r2\n  }\nGET /r\n  200 @u\nPOST /r\n  Request @r2\n  200 [@r2]\n"))
	add("tags", drv.Single("JSIGHT 0.3\nTAG @g\nGET /a\n  Tags @g\n  200 any\nGET /b/c\n  200 any\nURL /rpc\n  Protocol json-rpc-2.0\n  Method m\n    Tags @g\n"))
	add("enum", drv.Single("JSIGHT 0.3\nENUM @e\n  [1, 2]\nTYPE @t\n  {\n    \"a\": 1 // {enum: @e}\n  }\n"))
	add("macro", drv.Single("JSIGHT 0.3\nMACRO @m\n(\n  200 any\n)\nGET /m\n  PASTE @m\n"))
	add("allof", drv.Single("JSIGHT 0.3\nTYPE @hh\n  { // {allOf: \"@h\"}\n    \"z\": 1\n  }\nTYPE @h\n  { // {allOf: \"@a\"}\n    \"y\": 1\n  }\nTYPE @a\n  {\n    \"x\": 1\n  }\n"))
	add("empty", drv.Single(""))
	add("keyword-table-first-use", drv.Single("200 any\n"))
	add("similar-paths", drv.Single("JSIGHT 0.3\nGET /a/{x}\n  200 any\nGET /a/{y}/b\n  200 any\n"))
	add("url-paths", drv.Single("JSIGHT 0.3\nURL /u\n  GET\n    200 any\nURL /u\n  POST\n    200 any\n"))
	add("pathvars", drv.Single("JSIGHT 0.3\nGET /a/{id}\n  Path\n    {\n      \"id\": 1\n    }\n  200 any\n"))
	add("pathvars-other", drv.Single("JSIGHT 0.3\nGET /a/{id}\n  200 any\n"))
	add("banned", drv.Single("JSIGHT 0.3\nTYPE @t any\n"))
	return out
}

func runC03(c *fw.Ctx) {
	// (a) map-iteration orders
	docs := detDocs()
	var names []string
	for k := range docs {
		names = append(names, k)
	}
	sortStrings(names)
	limit := 20000
	if !c.Quick() {
		limit = 200000
	}
	for _, name := range names {
		if c.Expired() {
			break
		}
		exploreOrders(c, name, docs[name], limit, true)
	}
	// the same exploration over the single-file cases of the shared streams: every document in
	// which some map range sees two or more keys gets all its iteration orders (documents are
	// distributed over the workers, the orders of one document stay with one worker)
	which := map[string]bool{"pool": true, "variants": true, "paste": true, "multi": true, "names": true, "schema-rules": true}
	if !c.Quick() {
		which["corpus"] = true
	}
	eachCase(c, which, func(sc streamCase) {
		if len(sc.proj.Files) != 1 || len(sc.proj.Dirs) != 0 || len(sc.opt.Banned) > 0 {
			return
		}
		if sc.stream == "corpus-edit" && c.Quick() {
			return
		}
		c.Count("stream_documents", 1)
		c.Count("evaluations", 2) // the canonical run and its replay (choice-trace determinism)
		// one file object compiled twice: same result, and the caller's bytes are not written to
		if a, b, intact := drv.RunFileTwice("root.jst", sc.proj.Files[sc.proj.Root], sc.opt); !a.Crashed() && !b.Crashed() {
			c.Count("evaluations", 2)
			if digestOutcome(a, "") != digestOutcome(b, "") || !intact {
				what := "the second compilation of the same file object gives " + b.Short() + ", the first " + a.Short()
				if !intact {
					what = "compiling the file changed the bytes of the file object the caller handed in; " + what
				}
				c.Violate("differs-between-calls", "C03:same-file-twice", sc.stream+" "+sc.label+": "+what, map[string]interface{}{"text": sc.proj.Files[sc.proj.Root]})
			}
		}
		exploreOrders(c, sc.stream+":"+sc.label, sc.proj.Files[sc.proj.Root], limit/10, false)
	})

	// the same fault in several included files of identical layout
	{
		dirM := drv.NewDir(fw.Scratch("c03m"))
		for _, sc := range multiInstanceProjects() {
			if !c.Next() {
				continue
			}
			runP := func(choices []int) (drv.Outcome, []choicePoint) {
				var trace []choicePoint
				vdet.SetChooser(func(site string, n int) []int {
					i := len(trace)
					trace = append(trace, choicePoint{site, n})
					if i < len(choices) && choices[i] != 0 {
						return lehmer(choices[i]%factorial(n), n)
					}
					return nil
				})
				defer vdet.SetChooser(nil)
				o, _ := dirM.Run(sc.proj, sc.opt, true)
				return o, trace
			}
			base, trace := runP(nil)
			baseD := digestOutcome(base, "")
			c.Count("evaluations", 1)
			var rec func(vec []int, pos int)
			rec = func(vec []int, pos int) {
				if pos == len(trace) {
					nonzero := false
					for _, v := range vec {
						if v != 0 {
							nonzero = true
						}
					}
					if !nonzero {
						return
					}
					c.Count("evaluations", 1)
					c.Distinct(sc.label + fmt.Sprint(vec))
					o, _ := runP(vec)
					if d := digestOutcome(o, ""); d != baseD {
						if fw.Confirm(func() bool { o2, _ := runP(vec); return digestOutcome(o2, "") != baseD }) {
							site := ""
							for i, v := range vec {
								if v != 0 && i < len(trace) {
									site = trace[i].site
								}
							}
							c.Violate("order-dependent-result", "C03:map-order:"+site, fmt.Sprintf("project %s: with iteration order %v at the map ranges %v the result is %s, with the canonical order %s", sc.label, vec, trace, o.Short(), base.Short()),
								map[string]interface{}{"project": sc.proj, "choices": append([]int{}, vec...), "choice_points": fmt.Sprint(trace)})
						}
					}
					return
				}
				for v := 0; v < factorial(trace[pos].n) && v < 720; v++ {
					rec(append(vec, v), pos+1)
				}
			}
			if len(trace) <= 4 {
				rec(nil, 0)
			}
		}
		dirM.Close()
		os.RemoveAll(filepath.Dir(dirM.Path))
	}

	// (a') option values are values: one option value handed to many projects, alone or next to
	// others, must behave every time like a freshly made one. ALL sequences of three runs over
	// {4 projects} x {6 option lists built from 3 shared option values}.
	{
		shared := []core.Option{core.WithBannedDirectives(directive.Include), core.WithBannedDirectives(directive.Macro, directive.Paste), core.WithFixedSeedForRegex()}
		fresh := func(i int) core.Option {
			switch i {
			case 0:
				return core.WithBannedDirectives(directive.Include)
			case 1:
				return core.WithBannedDirectives(directive.Macro, directive.Paste)
			}
			return core.WithFixedSeedForRegex()
		}
		lists := [][]int{{0}, {1}, {0, 1}, {1, 0}, {2}, {0, 2}}
		texts := []string{
			"JSIGHT 0.3\nMACRO @m\n(\n  200 any\n)\nGET /m\n  PASTE @m\n",
			"JSIGHT 0.3\nINCLUDE missing.jst\n",
			"JSIGHT 0.3\nTYPE @t\n  {\"id\": 1}\nGET /t\n  200 @t\n",
			"JSIGHT 0.3\nTYPE @r regex\n  /[a-z]{3}[0-9]{2}/\nGET /r\n  200 regex\n    /x{2,4}/\n",
		}
		runOpts := func(text string, oo []core.Option) string {
			j := kit.NewJApiFromFile(fs.NewFile("root.jst", []byte(text)), oo...)
			if je := j.ValidateJAPI(); je != nil {
				return fmt.Sprintf("err|%s|%d|%d", je.Msg, je.Index(), je.Line())
			}
			b, err := j.ToJson()
			if err != nil {
				return "sererr|" + err.Error()
			}
			return "ok|" + string(b)
		}
		type kind struct{ t, l int }
		var kinds []kind
		ref := map[kind]string{}
		for t := range texts {
			for l := range lists {
				k := kind{t, l}
				kinds = append(kinds, k)
				var oo []core.Option
				for _, i := range lists[l] {
					oo = append(oo, fresh(i))
				}
				ref[k] = runOpts(texts[t], oo)
			}
		}
		pick := func(k kind) []core.Option {
			var oo []core.Option
			for _, i := range lists[k.l] {
				oo = append(oo, shared[i])
			}
			return oo
		}
		for _, k1 := range kinds {
			for _, k2 := range kinds {
				if !c.Next() {
					continue
				}
				for _, k3 := range kinds {
					shared = []core.Option{fresh(0), fresh(1), fresh(2)} // the values are shared within one sequence only
					c.Count("evaluations", 3)
					c.Distinct(fmt.Sprint("opts:", k1, k2, k3))
					seq := []kind{k1, k2, k3}
					for i, k := range seq {
						if got := runOpts(texts[k.t], pick(k)); got != ref[k] {
							c.Violate("shared-option-value-changes-result", "C03:option-reuse", fmt.Sprintf("run %d of the sequence %v (project, option list) with option values shared between the runs gives %s, with freshly made option values %s", i+1, seq, clipS(got, 160), clipS(ref[k], 160)),
								map[string]interface{}{"sequence": fmt.Sprint(seq), "projects": texts, "option_lists": "0=ban INCLUDE, 1=ban MACRO+PASTE, 2=fixed seed; lists " + fmt.Sprint(lists)})
							break
						}
					}
				}
			}
		}
	}

	// (b)-(d): repetition, fresh processes, and A-then-B
	self, _ := os.Executable()
	solo := func(p drv.Project) string {
		b, _ := json.Marshal(map[string]interface{}{"proj": p, "opt": drv.Options{FixedSeed: true}})
		cmd := exec.Command(self, "solo", string(b))
		cmd.Env = append(os.Environ(), "GOMAXPROCS=2")
		out, err := cmd.Output()
		if err != nil {
			return "solo-failed: " + err.Error()
		}
		return strings.TrimSpace(string(out))
	}
	hash := func(s string) string { h := sha256.Sum256([]byte(s)); return hex.EncodeToString(h[:]) }
	dir := drv.NewDir(fw.Scratch("c03"))
	defer os.RemoveAll(filepath.Dir(dir.Path))
	defer dir.Close()
	ps := pairProjects()
	soloD := map[string]string{}
	getSolo := func(i int) string {
		if d, ok := soloD[ps[i].name]; ok {
			return d
		}
		d := solo(ps[i].proj)
		soloD[ps[i].name] = d
		return d
	}
	inproc := func(p drv.Project) string {
		o, _ := dir.Run(p, drv.Options{FixedSeed: true}, true)
		return hash(digestOutcome(o, ""))
	}
	// (b') the same without any option: "the same options" includes none (the regex example generator
	// has a constant seed of its own then)
	soloPlain := func(p drv.Project) string {
		b, _ := json.Marshal(map[string]interface{}{"proj": p, "opt": drv.Options{}})
		cmd := exec.Command(self, "solo", string(b))
		cmd.Env = append(os.Environ(), "GOMAXPROCS=2")
		out, err := cmd.Output()
		if err != nil {
			return "solo-failed: " + err.Error()
		}
		return strings.TrimSpace(string(out))
	}
	for i := range ps {
		if !c.Next() {
			continue
		}
		c.Count("evaluations", 1)
		plain := func() string {
			o, _ := dir.Run(ps[i].proj, drv.Options{}, true)
			return hash(digestOutcome(o, ""))
		}
		a, b := plain(), plain()
		if a != b {
			c.Violate("differs-between-calls", "C03:repeat-no-options:"+ps[i].name, "project "+ps[i].name+" without options gives different results when processed twice in one process", map[string]interface{}{"project": ps[i].proj})
			continue
		}
		d1, d2 := soloPlain(ps[i].proj), soloPlain(ps[i].proj)
		if d1 != d2 {
			c.Violate("differs-between-processes", "C03:process-no-options:"+ps[i].name, "project "+ps[i].name+" without options gives different results in two fresh processes", map[string]interface{}{"project": ps[i].proj})
		} else if d1 != a && !strings.HasPrefix(d1, "solo-failed") {
			c.Violate("differs-between-processes", "C03:process-vs-inproc-no-options:"+ps[i].name, "project "+ps[i].name+" without options gives another result in a fresh process than in this one", map[string]interface{}{"project": ps[i].proj})
		}
	}
	for i := range ps {
		if !c.Next() {
			continue
		}
		c.Count("evaluations", 1)
		// (c) two fresh processes
		d1, d2 := solo(ps[i].proj), getSolo(i)
		if d1 != d2 {
			c.Violate("differs-between-processes", "C03:process:"+ps[i].name, "project "+ps[i].name+" gives different results in two fresh processes", map[string]interface{}{"project": ps[i].proj})
		}
		// (b) twice in this process
		a, b := inproc(ps[i].proj), inproc(ps[i].proj)
		if a != b {
			c.Violate("differs-between-calls", "C03:repeat:"+ps[i].name, "project "+ps[i].name+" gives different results when processed twice in one process", map[string]interface{}{"project": ps[i].proj})
		}
	}
	for i := range ps {
		for j := range ps {
			if c.Expired() {
				return
			}
			if !c.Next() {
				continue
			}
			c.Count("evaluations", 1)
			c.Distinct("pair:" + ps[i].name + ">" + ps[j].name)
			inproc(ps[i].proj)
			got := inproc(ps[j].proj)
			if want := getSolo(j); got != want {
				if fw.Confirm(func() bool { inproc(ps[i].proj); return inproc(ps[j].proj) != want }) {
					c.Violate("interference-between-projects", "C03:pair:"+ps[j].name, fmt.Sprintf("project %s processed after project %s in the same process gives a result different from its result in a fresh process", ps[j].name, ps[i].name),
						map[string]interface{}{"first": ps[i].proj, "second": ps[j].proj})
				}
			} else {
				c.Sample("pair", 2, map[string]interface{}{"first": ps[i].name, "second": ps[j].name})
			}
		}
	}
}

// exploreOrders runs one document under every iteration order of every map range it reaches
// (full product up to limit executions, beyond that every execution with <= 2 choice points
// departing from the canonical order) and requires identical observable results.
func exploreOrders(c *fw.Ctx, name, text string, limit int, shardByVector bool) {
	{
		if c.Expired() {
			return
		}
		base, trace := runWithChoices(text, nil)
		baseD := digestOutcome(base, "")
		// replay determinism: the same (empty) choice vector must give the same trace
		_, trace2 := runWithChoices(text, nil)
		if fmt.Sprint(trace) != fmt.Sprint(trace2) {
			c.Note("harness_fault", "choice-point trace of "+name+" differs between two identical runs")
			c.NotExhaustive("nondeterministic choice trace")
			return
		}
		product := 1
		for _, cp := range trace {
			if product < limit*10 {
				product *= factorial(cp.n)
			}
		}
		full := product <= limit
		if !full {
			c.Count("documents_deviation_bounded", 1)
		}
		// enumerate choice vectors (DFS): vector positions index choice points in order of occurrence
		type found struct {
			dev    int
			site   string
			detail string
			wit    map[string]interface{}
		}
		var founds []found
		var rec func(vec []int, pos int, deviations int)
		rec = func(vec []int, pos int, deviations int) {
			if pos == len(trace) {
				if shardByVector && !c.Next() {
					return
				}
				if !shardByVector && len(vec) > 0 {
					allZero := true
					for _, v := range vec {
						if v != 0 {
							allZero = false
						}
					}
					if allZero {
						return // the canonical order is the base run
					}
				}
				c.Count("evaluations", 1)
				o, tr := runWithChoices(text, vec)
				nontriv := false
				for _, cp := range tr {
					if cp.n >= 2 {
						nontriv = true
					}
				}
				if nontriv {
					c.Distinct(name + fmt.Sprint(vec))
				}
				if len(tr) != len(trace) {
					// a different order led to a different path through the code (e.g. another error first): fine,
					// the outcome comparison below is what counts
					c.Count("executions_with_different_choice_trace", 1)
				}
				if d := digestOutcome(o, ""); d != baseD {
					if fw.Confirm(func() bool { o2, _ := runWithChoices(text, vec); return digestOutcome(o2, "") != baseD }) {
						site := ""
						dev := 0
						for i, v := range vec {
							if v != 0 && i < len(trace) {
								site = trace[i].site
								dev++
							}
						}
						founds = append(founds, found{dev, site, fmt.Sprintf("document %s: with iteration order %v at the map ranges %v the result is %s, with the canonical order %s", name, vec, trace, o.Short(), base.Short()),
							map[string]interface{}{"text": text, "choices": append([]int{}, vec...), "choice_points": fmt.Sprint(trace)}})
					}
				} else {
					c.Sample("orders", 2, map[string]interface{}{"doc": name, "choices": vec, "choice_points": fmt.Sprint(trace), "outcome": o.Short()})
				}
				return
			}
			n := factorial(trace[pos].n)
			for v := 0; v < n; v++ {
				d := deviations
				if v != 0 {
					d++
				}
				if !full && d > 2 {
					break
				}
				rec(append(vec, v), pos+1, d)
			}
		}
		rec(nil, 0, 0)
		// the witnesses with the fewest departures from the canonical order name the map range at fault
		min := 1 << 30
		for _, f := range founds {
			if f.dev < min {
				min = f.dev
			}
		}
		for _, f := range founds {
			if f.dev == min {
				c.Violate("order-dependent-result", "C03:map-order:"+f.site, f.detail, f.wit)
			}
		}
	}
}
