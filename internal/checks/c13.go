//go:build verif

package checks

import (
	"fmt"
	"sort"
	"strings"
	"time"

	"verif/internal/doc"
	"verif/internal/drv"
	"verif/internal/fw"
	"verif/internal/jsonx"

	"github.com/jsightapi/jsight-api-go-library/core"
)

func init() {
	fw.Register(&fw.Check{
		ID: "C13", Level: "model_checking",
		Rule: "(a) ALL ordered selections of 1..2 (quick) / 1..3 (thorough) paths from {/a, /a/{id}, /a/{id}/b, /a/{id}/b/{n}, /{id}, /{id}/{n}, /b/{n}} x form {path-bearing method, URL block with the Path at URL level, URL block with the Path at method level} x every subset of each path's parameters declared by its Path directive (inline object, reference to an object type, alias chain of 2..3 references; types declared before / after the use) x schema of the declared parameters {integer / string literal, reference to an integer / string type, float literal with a type rule}: expected verdict (a prefix declared twice => rejected) and expected pathVariables of every interaction (exactly the declared segments, in path order, with the declared example value) from the reference binding; (b) faulty variants (property matching no segment, {} and repeated {name}, nested object / array property, reference to a scalar or undefined type, additionalProperties / nullable / or rules, empty object): rejected; (c) the path-parameter splitter against the reference on ALL strings of length <= 7 (quick) / 8 (thorough) over {/ { } a}; non-trivial = project with at least one declared parameter; distinct = distinct documents / strings ; E-REFCAT (see C04) over the fixtures, the pool selections and every document the generators of C04 and C19 build: pathVariables of every HTTP interaction = the {name} segments for whose prefix some Path directive of the document (after macro expansion) declares a property, in path order; a Path property matching no segment / a prefix declared twice / an empty or repeated {name} => rejected ; a tree of five paths with two branches below one parameter (/a/{id}, /a/{id}/b/{n}, /a/{id}/c/{m}, one static segment below each): ALL ordered selections of 3..4 (thorough 5) x every assignment of the declaring interaction per parameter ; parameter schemas with or rules (built-in before / after a user type, as names and as objects); differential: every parameter's entry in pathVariables = the entry of the same property in a probe TYPE written with the same object, usedUserTypes = the types the parameters use; rule forms naming an object / array / undefined type at every position among the alternatives => rejected",
		Run:  runC13, QuickCap: 8 * time.Minute, ThoroughCap: 40 * time.Minute,
	})
}

type pparam struct{ prefix, name string }

// refPathParams: split on '/', drop empty segments; a segment {x} is parameter x whose prefix is
// the segments up to and including it joined by '/'.
func refPathParams(path string) (pp []pparam, bad bool) {
	var segs []string
	for _, s := range strings.Split(path, "/") {
		if s != "" {
			segs = append(segs, s)
		}
	}
	seen := map[string]bool{}
	for i, s := range segs {
		if len(s) >= 2 && s[0] == '{' && s[len(s)-1] == '}' {
			name := s[1 : len(s)-1]
			if name == "" || seen[name] {
				bad = true
			}
			seen[name] = true
			pp = append(pp, pparam{strings.Join(segs[:i+1], "/"), name})
		}
	}
	return pp, bad
}

func runC13(c *fw.Ctx) {
	genC13(c)
	if refcatHook != nil {
		refcatHook(c, "C13")
		refcatCross(c, "C13", genC04, genC19)
	}
}

// genC13 is the document generator of C13 with its own judgement (or the tap's).
func genC13(c *fw.Ctx) {
	opt := drv.Options{FixedSeed: true}
	paths := []string{"/a", "/a/{id}", "/a/{id}/b", "/a/{id}/b/{n}", "/{id}", "/{id}/{n}", "/b/{n}"}
	methods := []string{"GET", "POST", "PUT"}
	maxSel := 2
	strLen := 7
	if !c.Quick() {
		maxSel, strLen = 3, 8
	}
	type item struct {
		path       string
		form       int  // 0 path-bearing method, 1 URL + Path at URL level, 2 URL + Path at method level
		subset     int  // bit mask over the path's parameters
		refDepth   int  // 0 inline object, 1 reference to an object type, 2..3 reference to a type that is itself a reference (alias chain)
		typesAfter bool // the referenced types are declared after the interaction
		valForm    int  // schema of each declared parameter: 0 integer literal, 1 string literal, 2 reference to an integer type, 3 float literal with a type rule naming a float type, 4 reference to a string type
	}
	var sel []item
	valueOf := func(itemIdx, paramIdx int) int { return 100*(itemIdx+1) + paramIdx + 1 }

	run := func() {
		if !c.Next() {
			return
		}
		c.Count("evaluations", 1)
		n := doc.N
		nodes := []*doc.Node{doc.Jsight()}
		var trailing []*doc.Node
		declared := map[string]string{} // prefix -> expected scalar value
		declaredBy := map[string]int{}  // prefix -> the selection item whose Path declares it
		usedBy := map[string]string{}   // prefix -> the user type the parameter's schema uses
		usesValTypes := false
		dupl := false
		anyDecl := false
		for i, it := range sel {
			pp, _ := refPathParams(it.path)
			var props []string
			for k, p := range pp {
				if it.subset&(1<<uint(k)) != 0 {
					var src, want string
					switch it.valForm {
					case 0:
						src = fmt.Sprint(valueOf(i, k))
						want = src
					case 1:
						want = fmt.Sprintf("s%d", valueOf(i, k))
						src = "\"" + want + "\""
					case 2:
						src, want = "@vint", "@vint"
						usesValTypes = true
					case 3:
						src, want = "2.5 // {type: \"@vflt\"}", "2.5"
						usesValTypes = true
					case 4:
						src, want = "@vstr", "@vstr"
						usesValTypes = true
					case 5: // or rules: a built-in type before / after a user type, as names and as objects
						src, want = "12 // {or: [\"integer\", \"@vint\"]}", "12"
						usesValTypes = true
					case 6:
						src, want = "12 // {or: [\"@vint\", \"string\"]}", "12"
						usesValTypes = true
					case 7:
						src, want = "12 // {or: [{type: \"integer\"}, {type: \"@vstr\"}]}", "12"
						usesValTypes = true
					}
					if ut := map[int]string{2: "@vint", 3: "@vflt", 4: "@vstr", 5: "@vint", 6: "@vint", 7: "@vstr"}[it.valForm]; ut != "" {
						usedBy[p.prefix] = ut
					}
					declaredBy[p.prefix] = i
					props = append(props, fmt.Sprintf("  \"%s\": %s", p.name, src))
					if _, ok := declared[p.prefix]; ok {
						dupl = true
					}
					declared[p.prefix] = want
					anyDecl = true
				}
			}
			var pathNode *doc.Node
			if len(props) > 0 {
				for pi := range props {
					if pi < len(props)-1 {
						if ci := strings.Index(props[pi], " //"); ci >= 0 {
							props[pi] = props[pi][:ci] + "," + props[pi][ci:] // the comma goes before the rule comment
						} else {
							props[pi] += ","
						}
					}
				}
				body := "{\n" + strings.Join(props, "\n") + "\n}"
				// the same object as a user type: a parameter's schema in pathVariables is the schema
				// the same property has there
				trailing = append(trailing, n("TYPE", fmt.Sprintf("@probe%d", i)).WithBody(body))
				if it.refDepth > 0 {
					var tt []*doc.Node
					for d := 1; d <= it.refDepth; d++ {
						b := body
						if d < it.refDepth {
							b = fmt.Sprintf("@pv%d_%d", i, d+1)
						}
						tt = append(tt, n("TYPE", fmt.Sprintf("@pv%d_%d", i, d)).WithBody(b))
					}
					if it.typesAfter {
						trailing = append(trailing, tt...)
					} else {
						nodes = append(nodes, tt...)
					}
					pathNode = n("Path").WithBody(fmt.Sprintf("@pv%d_1", i))
				} else {
					pathNode = n("Path").WithBody(body)
				}
			}
			m := n(methods[i]).WithKids(n("200", "any"))
			switch it.form {
			case 0:
				m.Params = []string{it.path}
				if pathNode != nil {
					m.Kids = append([]*doc.Node{pathNode}, m.Kids...)
				}
				m.Paren = true
				nodes = append(nodes, m)
			case 1:
				u := n("URL", it.path).WithParen()
				if pathNode != nil {
					u.Kids = append(u.Kids, pathNode)
				}
				u.Kids = append(u.Kids, m)
				nodes = append(nodes, u)
			case 2:
				u := n("URL", it.path).WithParen()
				if pathNode != nil {
					m.Kids = append(m.Kids, pathNode)
				}
				u.Kids = append(u.Kids, m)
				nodes = append(nodes, u)
			}
		}
		if usesValTypes {
			nodes = append(nodes, n("TYPE", "@vint").WithBody("12 // {min: 1}"), n("TYPE", "@vflt").WithBody("1.5"), n("TYPE", "@vstr").WithBody("\"str\""))
		}
		nodes = append(nodes, trailing...)
		text := doc.Text(nodes)
		label := fmt.Sprint(sel)
		c.Describe(label)
		if anyDecl {
			c.Distinct(text)
		}
		o := drv.RunMem("root.jst", text, opt)
		if docTap != nil {
			docTap(label, text, o)
			return
		}
		if o.Crashed() {
			c.Count("skipped_crash", 1)
			return
		}
		// same URL path twice / same path under two forms is a duplicate-path fault of its own
		if dupl {
			if !o.Rejected() {
				c.Violate("double-declaration-accepted", "C13:double-declaration", label+": a path parameter is declared twice for one prefix, yet "+o.Short(), map[string]interface{}{"text": text})
			}
			return
		}
		if !o.OK() {
			c.Violate("valid-paths-rejected", "C13:rejected:"+firstWordsN(o.Msg, 4), label+": "+o.Short(), map[string]interface{}{"text": text})
			return
		}
		cat, _, err := jsonx.Parse([]byte(o.JSON))
		if err != nil {
			return
		}
		in := cat.Get("interactions")
		for i, it := range sel {
			id := "http " + methods[i] + " " + it.path
			e := in.Get(id)
			if e == nil {
				c.Violate("interaction-missing", "C13:interaction-missing", label+": no interaction "+id, map[string]interface{}{"text": text})
				return
			}
			pp, _ := refPathParams(it.path)
			var want []string
			for _, p := range pp {
				if v, ok := declared[p.prefix]; ok {
					want = append(want, fmt.Sprintf("%s=%s", p.name, v))
				}
			}
			var got []string
			pv := e.Get("pathVariables")
			if pv != nil {
				ch := pv.Path("schema", "content", "children")
				if ch != nil {
					for _, x := range ch.A {
						got = append(got, x.Get("key").Str()+"="+x.Get("scalarValue").Str())
					}
				}
			}
			if strings.Join(got, ",") != strings.Join(want, ",") || (len(want) == 0 && pv != nil) {
				c.Violate("path-variables", "C13:binding:"+bindClass(got, want), fmt.Sprintf("%s: interaction %s has pathVariables %v, reference binding %v", label, id, got, want), map[string]interface{}{"text": text})
				return
			}
			// "each with the declared schema": the entry of every parameter equals the entry the same
			// property has in the probe type written with the same object; the user types the
			// parameters use are the user types of pathVariables
			if pv != nil {
				var wantUsed []string
				for _, p := range pp {
					j, ok := declaredBy[p.prefix]
					if !ok {
						continue
					}
					if u := usedBy[p.prefix]; u != "" {
						wantUsed = append(wantUsed, u)
					}
					var mine, probe *jsonx.V
					if ch := pv.Path("schema", "content", "children"); ch != nil {
						for _, x := range ch.A {
							if x.Get("key").Str() == p.name {
								mine = x
							}
						}
					}
					if ch := cat.Path("userTypes", fmt.Sprintf("@probe%d", j), "schema", "content", "children"); ch != nil {
						for _, x := range ch.A {
							if x.Get("key").Str() == p.name {
								probe = x
							}
						}
					}
					if mine != nil && probe != nil && mine.Canon() != probe.Canon() {
						c.Violate("path-variables", "C13:schema-differs", fmt.Sprintf("%s: interaction %s, parameter %s has the schema %s, the same property of a user type has %s", label, id, p.name, clipS(mine.Canon(), 300), clipS(probe.Canon(), 300)), map[string]interface{}{"text": text})
						return
					}
				}
				var gotUsed []string
				if u := pv.Path("schema", "usedUserTypes"); u != nil {
					for _, x := range u.A {
						gotUsed = append(gotUsed, x.S)
					}
				}
				gu, wu := dedupStrings(gotUsed), dedupStrings(wantUsed)
				sort.Strings(gu)
				sort.Strings(wu)
				if strings.Join(gu, ",") != strings.Join(wu, ",") {
					c.Violate("path-variables", "C13:used-types", fmt.Sprintf("%s: interaction %s: pathVariables.schema.usedUserTypes = %v, the parameters use %v", label, id, gotUsed, wantUsed), map[string]interface{}{"text": text})
					return
				}
			}
		}
		if anyDecl {
			c.Sample("binding", 3, map[string]interface{}{"selection": label, "text": text})
		}
	}
	var rec func(k int)
	rec = func(k int) {
		if len(sel) > 0 {
			run()
		}
		if k == 0 || c.Expired() {
			return
		}
		for _, p := range paths {
			used := false
			for _, s := range sel {
				if s.path == p {
					used = true
				}
			}
			if used {
				continue
			}
			pp, _ := refPathParams(p)
			for form := 0; form < 3; form++ {
				for subset := 0; subset < 1<<uint(len(pp)); subset++ {
					if subset == 0 && form == 2 {
						continue // same document as form 1 without a Path
					}
					for refDepth := 0; refDepth <= 3; refDepth++ {
						for _, after := range []bool{false, true} {
							if refDepth > 0 && subset == 0 || refDepth == 0 && after {
								continue
							}
							for valForm := 0; valForm <= 7; valForm++ {
								if valForm > 0 && (subset == 0 || len(sel) > 0) {
									continue // the forms vary on the first path of a selection
								}
								sel = append(sel, item{p, form, subset, refDepth, after, valForm})
								rec(k - 1)
								sel = sel[:len(sel)-1]
							}
						}
					}
				}
			}
		}
	}
	rec(maxSel)
	genC13Tree(c)
	genC13Shared(c)
	genC13Case(c)
	if docTap != nil {
		return
	}

	// (b) faulty variants
	faults := c13FaultDocs()
	for _, f := range faults {
		if !c.Next() {
			continue
		}
		c.Count("evaluations", 1)
		c.Distinct(f.text)
		o := drv.RunMem("root.jst", f.text, opt)
		if !o.Rejected() && !o.Crashed() {
			c.Violate("faulty-path-accepted", "C13:fault:"+f.label, f.label+": "+o.Short(), map[string]interface{}{"text": f.text})
		}
	}

	// (c) the splitter
	alpha := []byte{'/', '{', '}', 'a'}
	var srec func(prefix []byte)
	srec = func(prefix []byte) {
		if len(prefix) > 0 && c.Next() {
			c.Count("evaluations", 1)
			s := string(prefix)
			want, bad := refPathParams(s)
			got, err := core.VerifPathParameters(s)
			var g, w []string
			for _, p := range got {
				g = append(g, p.Path+":"+p.Parameter)
			}
			for _, p := range want {
				w = append(w, p.prefix+":"+p.name)
			}
			if strings.Join(g, ",") != strings.Join(w, ",") || (err != nil) != bad {
				c.Violate("splitter", "C13:splitter", fmt.Sprintf("path %q: library %v (err %v), reference %v (faulty %v)", s, g, err, w, bad), map[string]interface{}{"path": s})
			}
		}
		if len(prefix) == strLen {
			return
		}
		for _, b := range alpha {
			srec(append(prefix, b))
		}
	}
	srec(nil)
}

func bindClass(got, want []string) string {
	switch {
	case len(got) < len(want):
		return "missing"
	case len(got) > len(want):
		return "extra"
	}
	return "different"
}

// c13fv is one faulty Path declaration (must be rejected, never crash).
type c13fv struct{ label, text string }

// c13FaultDocs: the faulty variants of (b); also a stream of C01 / C02 (a fault must be a diagnostic).
func c13FaultDocs() []c13fv {
	type fv = c13fv
	mk := func(path, pathBody string, extra string) string {
		return "JSIGHT 0.3\n" + extra + "GET " + path + "\n  Path\n" + indentBlock(pathBody+"\n", "    ") + "  200 any\n"
	}
	faults := []fv{
		{"unmatched-property", mk("/a/{id}", "{\n  \"zzz\": 1\n}", "")},
		{"unmatched-property-among-matched", mk("/a/{id}", "{\n  \"id\": 1,\n  \"zzz\": 2\n}", "")},
		{"empty-name", mk("/a/{}", "{\n  \"id\": 1\n}", "")},
		{"empty-name-no-path-directive", "JSIGHT 0.3\nGET /a/{}\n  200 any\n"},
		{"repeated-name", mk("/a/{id}/{id}", "{\n  \"id\": 1\n}", "")},
		{"repeated-name-no-path-directive", "JSIGHT 0.3\nURL /a/{id}/b/{id}\n  GET\n    200 any\n"},
		{"nested-object", mk("/a/{id}", "{\n  \"id\": {\n    \"x\": 1\n  }\n}", "")},
		{"array-property", mk("/a/{id}", "{\n  \"id\": [1]\n}", "")},
		{"empty-object-typed-any", mk("/a/{id}", "{\n  \"id\": {} // {type: \"any\"}\n}", "")},
		{"empty-array-typed-any", mk("/a/{id}", "{\n  \"id\": [] // {type: \"any\"}\n}", "")},
		{"object-typed-by-rule", mk("/a/{id}", "{\n  \"id\": {\"x\": 1} // {type: \"@ob\"}\n}", "TYPE @ob\n  {\"x\": 1}\n")},
		{"regex-type-ref", mk("/a/{id}", "@rx", "TYPE @rx regex\n  /a/\n")},
		{"alias-to-regex-type-ref", mk("/a/{id}", "@al", "TYPE @al\n  @rx\nTYPE @rx regex\n  /a/\n")},
		{"any-type-ref", mk("/a/{id}", "@an", "TYPE @an any\n")},
		{"enum-typed-property", mk("/a/{id}", "{\n  \"id\": \"x\" // {enum: @en}\n}", "ENUM @en\n  [\"x\", \"y\"]\n")[0:0] + "JSIGHT 0.3\nENUM @en\n  [\"x\", \"y\"]\nGET /a/{id}/{zz}\n  Path\n    {\n      \"id\": \"x\", // {enum: @en}\n      \"nope\": 1\n    }\n  200 any\n"},
		{"scalar-type-ref", mk("/a/{id}", "@sc", "TYPE @sc\n  1\n")},
		{"array-type-ref", mk("/a/{id}", "@ar", "TYPE @ar\n  [1]\n")},
		{"undefined-type-ref", mk("/a/{id}", "@nope", "")},
		{"or-types", mk("/a/{id}", "@o1 | @o2", "TYPE @o1\n  {\n    \"id\": 1\n  }\nTYPE @o2\n  {\n    \"id\": 2\n  }\n")},
		{"additional-properties", mk("/a/{id}", "{ // {additionalProperties: true}\n  \"id\": 1\n}", "")},
		{"nullable", mk("/a/{id}", "{ // {nullable: true}\n  \"id\": 1\n}", "")},
		{"empty-object", mk("/a/{id}", "{}", "")},
		{"declared-twice-url-and-method", "JSIGHT 0.3\nURL /a/{id}\n  Path\n    {\n      \"id\": 1\n    }\n  GET\n    Path\n      {\n        \"id\": 2\n      }\n    200 any\n"},
		{"declared-twice-prefix-and-longer", "JSIGHT 0.3\nGET /a/{id}\n  Path\n    {\n      \"id\": 1\n    }\n  200 any\nGET /a/{id}/b\n  Path\n    {\n      \"id\": 2\n    }\n  200 any\n"},
	}
	// a parameter declared twice for one prefix when both declarations are pastes of ONE macro
	mp := "MACRO @mp\n(\n  Path\n    {\n      \"id\": 1\n    }\n)\n"
	faults = append(faults,
		fv{"declared-twice-by-two-pastes-methods", "JSIGHT 0.3\n" + mp + "GET /a/{id}\n(\n  PASTE @mp\n  200 any\n)\nPOST /a/{id}\n(\n  PASTE @mp\n  200 any\n)\n"},
		fv{"declared-twice-by-two-pastes-prefix-and-longer", "JSIGHT 0.3\n" + mp + "URL /a/{id}\n(\n  PASTE @mp\n  GET\n    200 any\n)\nURL /a/{id}/b\n(\n  PASTE @mp\n  GET\n    200 any\n)\n"},
		fv{"declared-twice-by-two-pastes-url-and-method", "JSIGHT 0.3\n" + mp + "URL /a/{id}\n(\n  PASTE @mp\n  GET\n  (\n    PASTE @mp\n    200 any\n  )\n)\n"},
		fv{"declared-twice-paste-and-literal", "JSIGHT 0.3\n" + mp + "GET /a/{id}\n(\n  PASTE @mp\n  200 any\n)\nPOST /a/{id}\n(\n  Path\n    {\n      \"id\": 2\n    }\n  200 any\n)\n"},
	)
	// a type a path parameter cannot have (object, array, undefined), named by a rule of the
	// parameter: in every rule form and at every position among the alternatives
	extra := "TYPE @ob\n  {\"x\": 1}\nTYPE @ar\n  [1]\nTYPE @vi\n  1\n"
	for _, x := range []string{"@ob", "@ar", "@nope"} {
		for fi, form := range []string{
			`{type: "%s"}`, `{or: ["integer", "%s"]}`, `{or: ["%s", "integer"]}`, `{or: [{type: "integer"}, {type: "%s"}]}`, `{or: [{type: "%s"}, {type: "integer"}]}`, `{or: ["@vi", "%s"]}`, `{or: ["integer", "string", "%s"]}`,
		} {
			ex := "1"
			if fi == 0 {
				ex = map[string]string{"@ob": "{\"x\": 1}", "@ar": "[1]", "@nope": "1"}[x]
			}
			faults = append(faults, fv{fmt.Sprintf("parameter-rule-names-%s-form%d", x[1:], fi), mk("/a/{id}", "{\n  \"id\": "+ex+" // "+fmt.Sprintf(form, x)+"\n}", extra)})
		}
	}
	return faults
}

// genC13Tree: a tree of paths with two branches below one parameter - /a/{id}, /a/{id}/b/{n},
// /a/{id}/c/{m} and one static segment below each branch - as path-bearing methods: ALL ordered
// selections of 3..4 (thorough 5) of the five paths x for every parameter prefix, which of the
// selected interactions declares it (or none). Every interaction lists exactly the declared
// parameters of its own prefixes, in path order, each with the declared value.
func genC13Tree(c *fw.Ctx) {
	opt := drv.Options{FixedSeed: true}
	paths := []string{"/a/{id}", "/a/{id}/b/{n}", "/a/{id}/c/{m}", "/a/{id}/b/{n}/x", "/a/{id}/c/{m}/y"}
	methods := []string{"GET", "POST", "PUT", "PATCH", "DELETE"}
	value := map[string]string{"id": "1", "n": "\"s\"", "m": "true"}
	scalar := map[string]string{"id": "1", "n": "s", "m": "true"}
	params := []string{"id", "n", "m"}
	maxSel := 4
	if !c.Quick() {
		maxSel = 5
	}
	var sel []int
	run := func() {
		// which selected interactions may declare which parameter
		holders := map[string][]int{}
		for si, pi := range sel {
			pp, _ := refPathParams(paths[pi])
			for _, p := range pp {
				holders[p.name] = append(holders[p.name], si)
			}
		}
		var assign func(k int, decl map[string]int)
		assign = func(k int, decl map[string]int) {
			if k == len(params) {
				if !c.Next() {
					return
				}
				c.Count("evaluations", 1)
				nodes := []*doc.Node{doc.Jsight()}
				for si, pi := range sel {
					m := doc.N(methods[si], paths[pi]).WithKids(doc.N("200", "any"))
					var props []string
					pp, _ := refPathParams(paths[pi])
					for _, p := range pp {
						if d, ok := decl[p.name]; ok && d == si {
							props = append(props, fmt.Sprintf("\"%s\": %s", p.name, value[p.name]))
						}
					}
					if len(props) > 0 {
						m.Kids = append([]*doc.Node{doc.N("Path").WithBody("{" + strings.Join(props, ", ") + "}")}, m.Kids...)
					}
					m.Paren = true
					nodes = append(nodes, m)
				}
				text := doc.Text(nodes)
				label := fmt.Sprintf("tree sel=%v declared-by=%v", sel, decl)
				c.Describe(label)
				if len(decl) > 0 {
					c.Distinct(text)
				}
				o := drv.RunMem("root.jst", text, opt)
				if docTap != nil {
					docTap(label, text, o)
					return
				}
				if o.Crashed() {
					c.Count("skipped_crash", 1)
					return
				}
				if !o.OK() {
					c.Violate("valid-paths-rejected", "C13:tree-rejected:"+firstWordsN(o.Msg, 4), label+": "+o.Short(), map[string]interface{}{"text": text})
					return
				}
				cat, _, err := jsonx.Parse([]byte(o.JSON))
				if err != nil {
					return
				}
				in := cat.Get("interactions")
				for si, pi := range sel {
					id := "http " + methods[si] + " " + paths[pi]
					e := in.Get(id)
					if e == nil {
						c.Violate("interaction-missing", "C13:interaction-missing", label+": no interaction "+id, map[string]interface{}{"text": text})
						return
					}
					var want, got []string
					pp, _ := refPathParams(paths[pi])
					for _, p := range pp {
						if _, ok := decl[p.name]; ok {
							want = append(want, p.name+"="+scalar[p.name])
						}
					}
					pv := e.Get("pathVariables")
					if pv != nil {
						if ch := pv.Path("schema", "content", "children"); ch != nil {
							for _, x := range ch.A {
								got = append(got, x.Get("key").Str()+"="+x.Get("scalarValue").Str())
							}
						}
					}
					if strings.Join(got, ",") != strings.Join(want, ",") || (len(want) == 0 && pv != nil) {
						c.Violate("path-variables", "C13:tree-binding:"+bindClass(got, want), fmt.Sprintf("%s: interaction %s has pathVariables %v, reference binding %v", label, id, got, want), map[string]interface{}{"text": text})
						return
					}
				}
				return
			}
			name := params[k]
			assign(k+1, decl) // nobody declares it
			for _, si := range holders[name] {
				decl[name] = si
				assign(k+1, decl)
				delete(decl, name)
			}
		}
		assign(0, map[string]int{})
	}
	var rec func()
	rec = func() {
		if len(sel) >= 3 {
			run()
		}
		if len(sel) == maxSel || c.Expired() {
			return
		}
		for pi := range paths {
			used := false
			for _, x := range sel {
				if x == pi {
					used = true
				}
			}
			if used {
				continue
			}
			sel = append(sel, pi)
			rec()
			sel = sel[:len(sel)-1]
		}
	}
	rec()
}

// genC13Shared: one named type as the body of several Path directives. Four paths - two of them
// end in {id} below different ancestors, one of which has a declared parameter of its own - in ALL
// orders x each {id} prefix declared by `Path @pid`, by an inline object, or not at all x {shop}
// declared by `Path @pshop`, inline, or not at all. Every interaction lists exactly the declared
// parameters of its own prefixes.
func genC13Shared(c *fw.Ctx) {
	opt := drv.Options{FixedSeed: true}
	paths := []string{"/s/{shop}/c/{id}", "/d/{id}", "/s/{shop}", "/e/{id}/x"}
	methods := []string{"GET", "POST", "PUT", "PATCH"}
	idHolders := []int{0, 1, 3}
	permutations(len(paths), func(order []int) bool {
		for code := 0; code < 27*3; code++ {
			if c.Expired() {
				return false
			}
			if !c.Next() {
				continue
			}
			c.Count("evaluations", 1)
			x := code
			how := map[int]int{} // path index -> 0 none, 1 type reference, 2 inline
			for _, h := range idHolders {
				how[h] = x % 3
				x /= 3
			}
			shopHow := x % 3
			nodes := []*doc.Node{doc.Jsight()}
			declared := map[string]string{}
			for _, pi := range order {
				m := doc.N(methods[pi], paths[pi]).WithKids(doc.N("200", "any"))
				m.Paren = true
				pp, _ := refPathParams(paths[pi])
				switch {
				case pi == 2 && shopHow == 1:
					m.Kids = append([]*doc.Node{doc.N("Path").WithBody("@pshop")}, m.Kids...)
				case pi == 2 && shopHow == 2:
					m.Kids = append([]*doc.Node{doc.N("Path").WithBody("{\n  \"shop\": \"s1\"\n}")}, m.Kids...)
				case how[pi] == 1:
					m.Kids = append([]*doc.Node{doc.N("Path").WithBody("@pid")}, m.Kids...)
				case how[pi] == 2:
					m.Kids = append([]*doc.Node{doc.N("Path").WithBody("{\n  \"id\": 1\n}")}, m.Kids...)
				}
				if pi == 2 && shopHow != 0 {
					declared[pp[0].prefix] = "shop=s1"
				}
				if pi != 2 && how[pi] != 0 {
					declared[pp[len(pp)-1].prefix] = "id=1"
				}
				nodes = append(nodes, m)
			}
			nodes = append(nodes, doc.N("TYPE", "@pid").WithBody("{\n  \"id\": 1\n}"), doc.N("TYPE", "@pshop").WithBody("{\n  \"shop\": \"s1\"\n}"))
			text := doc.Text(nodes)
			label := fmt.Sprintf("shared-type order=%v id-declared=%v shop-declared=%d", order, how, shopHow)
			c.Describe(label)
			c.Distinct(text)
			o := drv.RunMem("root.jst", text, opt)
			if docTap != nil {
				docTap(label, text, o)
				continue
			}
			if o.Crashed() {
				c.Count("skipped_crash", 1)
				continue
			}
			if !o.OK() {
				c.Violate("valid-paths-rejected", "C13:shared-rejected:"+firstWordsN(o.Msg, 4), label+": "+o.Short(), map[string]interface{}{"text": text})
				continue
			}
			cat, _, err := jsonx.Parse([]byte(o.JSON))
			if err != nil {
				continue
			}
			in := cat.Get("interactions")
			for _, pi := range order {
				id := "http " + methods[pi] + " " + paths[pi]
				e := in.Get(id)
				if e == nil {
					c.Violate("interaction-missing", "C13:interaction-missing", label+": no interaction "+id, map[string]interface{}{"text": text})
					break
				}
				var want, got []string
				pp, _ := refPathParams(paths[pi])
				for _, p := range pp {
					if v, ok := declared[p.prefix]; ok {
						want = append(want, v)
					}
				}
				pv := e.Get("pathVariables")
				if pv != nil {
					if ch := pv.Path("schema", "content", "children"); ch != nil {
						for _, x := range ch.A {
							got = append(got, x.Get("key").Str()+"="+x.Get("scalarValue").Str())
						}
					}
				}
				if strings.Join(got, ",") != strings.Join(want, ",") || (len(want) == 0 && pv != nil) {
					c.Violate("path-variables", "C13:shared-binding:"+bindClass(got, want), fmt.Sprintf("%s: interaction %s has pathVariables %v, reference binding %v", label, id, got, want), map[string]interface{}{"text": text})
					break
				}
			}
		}
		return true
	})
}

// genC13Case: prefixes that differ in letter case only are different prefixes. Four paths -
// /c/{id}, /C/{id} and one static segment below each - in ALL orders x each of the two {id}
// prefixes declared by the shorter path, by the longer one, or not at all (with different schemas).
func genC13Case(c *fw.Ctx) {
	opt := drv.Options{FixedSeed: true}
	paths := []string{"/c/{id}", "/C/{id}", "/c/{id}/x", "/C/{id}/y"}
	methods := []string{"GET", "POST", "PUT", "PATCH"}
	body := map[byte]string{'c': "{\n  \"id\": 1\n}", 'C': "{\n  \"id\": \"up\"\n}"}
	scalar := map[byte]string{'c': "id=1", 'C': "id=up"}
	permutations(len(paths), func(order []int) bool {
		for code := 0; code < 9; code++ {
			if c.Expired() {
				return false
			}
			if !c.Next() {
				continue
			}
			c.Count("evaluations", 1)
			decl := map[byte]int{'c': code % 3, 'C': code / 3} // 0 nobody, 1 the shorter path, 2 the longer path
			nodes := []*doc.Node{doc.Jsight()}
			for _, pi := range order {
				m := doc.N(methods[pi], paths[pi]).WithKids(doc.N("200", "any"))
				m.Paren = true
				cs := paths[pi][1]
				if (decl[cs] == 1 && pi < 2) || (decl[cs] == 2 && pi >= 2) {
					m.Kids = append([]*doc.Node{doc.N("Path").WithBody(body[cs])}, m.Kids...)
				}
				nodes = append(nodes, m)
			}
			text := doc.Text(nodes)
			label := fmt.Sprintf("case-twins order=%v declared=%v", order, decl)
			c.Describe(label)
			c.Distinct(text)
			o := drv.RunMem("root.jst", text, opt)
			if docTap != nil {
				docTap(label, text, o)
				continue
			}
			if o.Crashed() {
				c.Count("skipped_crash", 1)
				continue
			}
			if !o.OK() {
				c.Violate("valid-paths-rejected", "C13:case-rejected:"+firstWordsN(o.Msg, 4), label+": "+o.Short(), map[string]interface{}{"text": text})
				continue
			}
			cat, _, err := jsonx.Parse([]byte(o.JSON))
			if err != nil {
				continue
			}
			in := cat.Get("interactions")
			for _, pi := range order {
				id := "http " + methods[pi] + " " + paths[pi]
				e := in.Get(id)
				if e == nil {
					c.Violate("interaction-missing", "C13:interaction-missing", label+": no interaction "+id, map[string]interface{}{"text": text})
					break
				}
				var want, got []string
				if decl[paths[pi][1]] != 0 {
					want = append(want, scalar[paths[pi][1]])
				}
				pv := e.Get("pathVariables")
				if pv != nil {
					if ch := pv.Path("schema", "content", "children"); ch != nil {
						for _, x := range ch.A {
							got = append(got, x.Get("key").Str()+"="+x.Get("scalarValue").Str())
						}
					}
				}
				if strings.Join(got, ",") != strings.Join(want, ",") || (len(want) == 0 && pv != nil) {
					c.Violate("path-variables", "C13:case-binding:"+bindClass(got, want), fmt.Sprintf("%s: interaction %s has pathVariables %v, reference binding %v", label, id, got, want), map[string]interface{}{"text": text})
					break
				}
			}
		}
		return true
	})
}
