//go:build verif

package checks

import (
	"fmt"
	"strings"

	"verif/internal/doc"
	"verif/internal/fw"
)

func init() { corpusC07Hook = runC07Corpus }

// inlineFixture replaces every PASTE line of a recovered fixture by the text of the body of the
// macro it names (recursively) and drops the MACRO declarations. ok=false when a macro is
// undefined, defined twice, not at top level, cyclic, or a PASTE is not a line of its own.
func (d *cdoc) inlineFixture() (text string, pastes int, ok bool) {
	type body struct{ from, to int } // lines [from, to)
	macros := map[string]body{}
	inMacroChunk := make([]bool, len(d.r.Lines))
	for _, ch := range d.top {
		if ch.tree.kw != "MACRO" {
			continue
		}
		sp := d.r.Spans[ch.tree.first]
		if len(sp.Node.Params) != 1 {
			return "", 0, false
		}
		if _, dup := macros[sp.Node.Params[0]]; dup {
			return "", 0, false
		}
		for l := ch.fromLine; l < ch.toLine; l++ {
			inMacroChunk[l] = true
		}
		if len(ch.tree.kids) == 0 {
			macros[sp.Node.Params[0]] = body{0, 0}
			continue
		}
		from := d.kwLine[ch.tree.kids[0].first]
		to := ch.toLine
		if ch.tree.explicit {
			// drop the closing parenthesis: the last parenthesis line of the chunk
			last := -1
			for l := from; l < ch.toLine; l++ {
				if d.r.Lines[l].Kind == doc.LParen && strings.TrimSpace(d.text[d.r.Lines[l].Begin:d.r.Lines[l].End]) == ")" {
					last = l
				}
			}
			if last < 0 {
				return "", 0, false
			}
			// whatever follows the closing parenthesis inside the chunk is trivia
			to = last
		}
		macros[sp.Node.Params[0]] = body{from, to}
	}
	if len(macros) == 0 {
		return "", 0, false
	}
	pasteAt := map[int]string{}
	bad := false
	var walk func(tt []*ctree, top bool)
	walk = func(tt []*ctree, top bool) {
		for _, t := range tt {
			if t.kw == "MACRO" && !top {
				bad = true
			}
			if t.kw == "PASTE" {
				sp := d.r.Spans[t.first]
				l := d.kwLine[t.first]
				rest := strings.TrimSpace(d.text[sp.KwEnd:d.r.Lines[l].End])
				if len(sp.Node.Params) != 1 || rest != sp.Node.Params[0] || len(t.kids) != 0 {
					bad = true // annotation / comment on the PASTE line: keep clear
				}
				if len(sp.Node.Params) == 1 {
					pasteAt[l] = sp.Node.Params[0]
				}
			}
			walk(t.kids, false)
		}
	}
	walk(d.forest, true)
	if bad || len(pasteAt) == 0 {
		return "", 0, false
	}
	var out []string
	var emit func(from, to int, stack map[string]bool) bool
	emit = func(from, to int, stack map[string]bool) bool {
		for l := from; l < to; l++ {
			if name, isPaste := pasteAt[l]; isPaste {
				m, defined := macros[name]
				if !defined || stack[name] {
					return false
				}
				stack[name] = true
				pastes++
				if !emit(m.from, m.to, stack) {
					return false
				}
				delete(stack, name)
				continue
			}
			out = append(out, d.text[d.r.Lines[l].Begin:d.r.Lines[l].End])
		}
		return true
	}
	for l := 0; l < len(d.r.Lines); l++ {
		if inMacroChunk[l] {
			continue
		}
		if !emit(l, l+1, map[string]bool{}) {
			return "", 0, false
		}
	}
	return strings.Join(out, "\n") + "\n", pastes, true
}

// runC07Corpus: every accepted fixture that uses macros against its inlined text.
func runC07Corpus(c *fw.Ctx) {
	docs, _ := corpusDocs(0)
	used := 0
	for _, d := range docs {
		if c.Expired() {
			return
		}
		it, pastes, ok := d.inlineFixture()
		if !ok {
			continue
		}
		used++
		if !c.Next() {
			continue
		}
		c.Count("evaluations", 1)
		label := "fixture:" + d.name
		c.Describe(label)
		o := run1(d.text)
		if o.Crashed() || !o.OK() {
			c.Count("rejected_with_macros", 1)
			continue
		}
		c.Distinct(d.text)
		oi := run1(it)
		if oi.Crashed() {
			c.Count("skipped_crash", 1)
			continue
		}
		if oi.OK() && oi.JSON == o.JSON {
			c.Sample("fixture-inline-equal", 2, map[string]interface{}{"fixture": d.name, "pastes_expanded": pastes})
			continue
		}
		if fw.Confirm(func() bool { a, b := run1(d.text), run1(it); return a.OK() && !(b.OK() && a.JSON == b.JSON) }) {
			det := fmt.Sprintf("%s: with macros %s, inlined %s", label, o.Short(), oi.Short())
			if oi.OK() {
				det += "; JSON differs: " + firstDiff(o.JSON, oi.JSON)
			}
			c.Violate("paste-not-inline", "C07:inline:fixture", det, map[string]interface{}{"with_macros": d.text, "inlined": it})
		}
	}
	if c.Shard == 0 {
		c.Note("corpus_fixtures_with_macros_inlined", used)
	}
}
