//go:build verif

package checks

import (
	"encoding/json"
	"fmt"
	"os"
	"path/filepath"
	"strings"
	"time"
	"unicode/utf8"

	"github.com/jsightapi/jsight-api-go-library/core"
	"github.com/jsightapi/jsight-api-go-library/kit"
	"github.com/jsightapi/jsight-schema-go-library/fs"

	"verif/internal/drv"
	"verif/internal/fw"
	"verif/internal/jsonx"
)

func init() {
	fw.Register(&fw.Check{
		ID: "C09", Level: "model_checking", Prepare: prepareStreams,
		Rule: "every ACCEPTED run of the shared streams (pool documents, corpus and its one-line-edit neighbourhood, context-state representatives, directive-variant sequences, paste graphs, include scenarios, option sets, and the name sweep: all strings of length <= 2 (thorough 3) over {space \" \\ / é 0xFF a { } @ #} in 14 name-bearing positions, plus JSON-RPC id collisions): ToJson succeeds, bytes are valid UTF-8 JSON without a repeated key in any object, the indented form denotes the same value, every interaction's key = its id = protocol + method + path of its own fields, tags and interactions reference each other mutually, every used user type / enum exists, every request and response has a body whose format matches its notation, Title() = info.title; non-trivial = accepted run; distinct = distinct accepted inputs ; call histories: ALL sequences of 1..4 (thorough 5) calls over {ValidateJAPI, ToJson, ToJsonIndent, Title} on one JApi object (two accepted documents, one rejected): after acceptance every ToJson equals that of a fresh validated object, ToJsonIndent denotes the same value, Title() = info.title",
		Run:  runC09, QuickCap: 12 * time.Minute, ThoroughCap: 60 * time.Minute,
	})
}

var formatOf = map[string]string{"jsight": "json", "regex": "plainString", "any": "binary", "empty": "binary"}

// catalogConsistency returns a description of the first inconsistency ("" if none) and a class.
func catalogConsistency(o drv.Outcome) (string, string) {
	if !utf8.ValidString(o.JSON) {
		return "utf8", "the JSON is not valid UTF-8"
	}
	cat, dups, err := jsonx.Parse([]byte(o.JSON))
	if err != nil {
		return "invalid-json", "the JSON does not parse: " + err.Error()
	}
	if len(dups) > 0 {
		return "duplicate-key:" + collOf(dups[0]), fmt.Sprintf("an object has a repeated key: %v", dups)
	}
	ind, d2, err := jsonx.Parse([]byte(o.Indent))
	if err != nil || len(d2) > 0 {
		return "indent-invalid", fmt.Sprintf("the indented JSON is invalid: %v %v", err, d2)
	}
	if ind.Canon() != cat.Canon() {
		return "indent-differs", "the indented and the compact form denote different values"
	}
	title := ""
	if t := cat.Path("info", "title"); t != nil {
		title = t.S
	}
	// JSON cannot carry invalid UTF-8: compare with the title as JSON would carry it
	wantTitle := o.Title
	if tb, err := json.Marshal(o.Title); err == nil {
		json.Unmarshal(tb, &wantTitle)
	}
	if wantTitle != title {
		return "title", fmt.Sprintf("Title() = %q, info.title = %q", o.Title, title)
	}
	in := cat.Get("interactions")
	tags := cat.Get("tags")
	if in == nil || tags == nil {
		return "shape", "interactions or tags missing"
	}
	types, enums := cat.Get("userTypes"), cat.Get("userEnums")
	has := func(coll *jsonx.V, k string) bool { return coll != nil && coll.Get(k) != nil }
	for i, key := range in.Keys {
		e := in.Vals[i]
		id := e.Get("id").Str()
		if id != key {
			return "key-vs-id", fmt.Sprintf("interaction key %q has id %q", key, id)
		}
		proto := e.Get("protocol").Str()
		var want string
		switch proto {
		case "http":
			want = "http " + e.Get("httpMethod").Str() + " " + e.Get("path").Str()
		case "json-rpc-2.0":
			want = "json-rpc-2.0 " + e.Get("method").Str() + " " + e.Get("path").Str()
		default:
			return "protocol", fmt.Sprintf("interaction %q has protocol %q", key, proto)
		}
		if id != want {
			return "id-composition", fmt.Sprintf("interaction id %q is not protocol+method+path of its fields (%q)", id, want)
		}
		tl := e.Get("tags")
		if tl == nil || len(tl.A) == 0 {
			return "no-tag", fmt.Sprintf("interaction %q carries no tag", key)
		}
		for _, t := range tl.A {
			te := tags.Get(t.S)
			if te == nil {
				return "tag-missing", fmt.Sprintf("interaction %q carries tag %q which has no entry", key, t.S)
			}
			found := false
			if g := te.Get("interactionGroups"); g != nil {
				for _, grp := range g.A {
					if grp.Get("protocol").Str() != proto {
						continue
					}
					for _, x := range grp.Get("interactions").A {
						if x.S == key {
							found = true
						}
					}
				}
			}
			if !found {
				return "tag-not-mutual", fmt.Sprintf("tag %q does not list interaction %q under protocol %q", t.S, key, proto)
			}
		}
		if proto == "http" {
			if r := e.Get("request"); r != nil {
				if c, d := bodyConsistent(r.Get("body"), "request of "+key); c != "" {
					return c, d
				}
			}
			if rs := e.Get("responses"); rs != nil {
				for _, r := range rs.A {
					if c, d := bodyConsistent(r.Get("body"), "response "+r.Get("code").Str()+" of "+key); c != "" {
						return c, d
					}
				}
			}
		}
	}
	for i, name := range tags.Keys {
		if g := tags.Vals[i].Get("interactionGroups"); g != nil {
			for _, grp := range g.A {
				for _, x := range grp.Get("interactions").A {
					ie := in.Get(x.S)
					if ie == nil {
						return "tag-dangling", fmt.Sprintf("tag %q lists interaction %q which does not exist", name, x.S)
					}
					carries := false
					for _, t := range ie.Get("tags").A {
						if t.S == name {
							carries = true
						}
					}
					if !carries {
						return "tag-not-mutual", fmt.Sprintf("tag %q lists interaction %q which does not carry it", name, x.S)
					}
				}
			}
		}
	}
	// used types and enums, anywhere
	bad := ""
	var walk func(v *jsonx.V)
	walk = func(v *jsonx.V) {
		if v == nil || bad != "" {
			return
		}
		switch v.Kind {
		case jsonx.Obj:
			for i, k := range v.Keys {
				if (k == "usedUserTypes" || k == "usedUserEnums") && v.Vals[i].Kind == jsonx.Arr {
					for _, x := range v.Vals[i].A {
						if k == "usedUserTypes" && !has(types, x.S) {
							bad = fmt.Sprintf("usedUserTypes names %q which is not a user type of the catalog", x.S)
						}
						if k == "usedUserEnums" && !has(enums, x.S) {
							bad = fmt.Sprintf("usedUserEnums names %q which is not an enum of the catalog", x.S)
						}
					}
					continue
				}
				walk(v.Vals[i])
			}
		case jsonx.Arr:
			for _, x := range v.A {
				walk(x)
			}
		}
	}
	walk(cat)
	if bad != "" {
		return "used-name-missing", bad
	}
	return "", ""
}

func bodyConsistent(b *jsonx.V, where string) (string, string) {
	if b == nil || b.Kind != jsonx.Obj {
		return "body-missing", "the " + where + " has no body"
	}
	n := b.Path("schema", "notation").Str()
	f := b.Get("format").Str()
	if formatOf[n] == "" || formatOf[n] != f {
		return "format-vs-notation", fmt.Sprintf("the %s has format %q with notation %q", where, f, n)
	}
	return "", ""
}

func collOf(path string) string {
	p := strings.Split(path, ".")
	if len(p) > 1 {
		return p[1]
	}
	return path
}

func runC09(c *fw.Ctx) {
	runC09Sequences(c)
	dir := drv.NewDir(fw.Scratch("c09"))
	defer os.RemoveAll(filepath.Dir(dir.Path))
	defer dir.Close()
	streams := map[string]bool{"pool": true, "corpus": true, "ctx": true, "variants": true, "paste": true, "include": true, "options": true, "names": true, "schema-rules": true}
	if !c.Quick() {
		streams["scan"] = true
	}
	eachCase(c, streams, func(sc streamCase) {
		c.Count("evaluations", 1)
		o := runCase(dir, sc, true)
		if o.Kind == "sererr" {
			c.Violate("serialisation-failed", "C09:sererr:"+firstWordsN(o.Msg, 4), sc.stream+" "+sc.label+": accepted but serialisation fails: "+o.Msg, map[string]interface{}{"project": sc.proj})
			return
		}
		if !o.OK() {
			return
		}
		c.Count("accepted", 1)
		c.Count("accepted_"+sc.stream, 1)
		c.Distinct(sc.stream + "|" + sc.proj.Files[sc.proj.Root])
		if cls, det := catalogConsistency(o); cls != "" {
			o2 := runCase(dir, sc, true)
			if c2, _ := catalogConsistency(o2); c2 == cls {
				c.Violate("inconsistent-catalog", "C09:"+cls, sc.stream+" "+sc.label+": "+det, map[string]interface{}{"project": sc.proj, "options": sc.opt})
			}
			return
		}
		c.Sample(sc.stream, 1, map[string]interface{}{"stream": sc.stream, "label": sc.label, "root": clipS(sc.proj.Files[sc.proj.Root], 200)})
	})
}

// runC09Sequences: the serialisations of one JApi object under every history of calls. ALL
// sequences of length 1..4 (thorough 5) over {ValidateJAPI, ToJson, ToJsonIndent, Title} on one
// object, for accepted and rejected documents: once the project has been accepted, every ToJson
// equals the ToJson of a fresh object that was only validated, every ToJsonIndent denotes the same
// value, Title() equals info.title - whatever was called before (also before validation).
func runC09Sequences(c *fw.Ctx) {
	docs := map[string]string{
		"api":      "JSIGHT 0.3\nINFO\n  Title \"Seq \\\"API\\\"\"\n  Version 1\nTAG @g\nTYPE @t\n  {\"id\": 1}\nURL /a/{id}\n  Path\n    {\"id\": 1}\n  GET // get\n    Tags @g\n    200 @t\nURL /rpc\n  Protocol json-rpc-2.0\n  Method m\n    Params\n      {\"p\": @t}\n",
		"no-info":  "JSIGHT 0.3\nGET /x\n  200 regex\n    /a+/\n",
		"rejected": "JSIGHT 0.3\nGET /x\n  200 @nope\n",
	}
	ops := []string{"V", "J", "I", "T"}
	maxLen := 4
	if !c.Quick() {
		maxLen = 5
	}
	type ref struct {
		ok    bool
		j     string
		title string
	}
	refs := map[string]ref{}
	names := []string{"api", "no-info", "rejected"}
	for _, n := range names {
		j := kit.NewJApiFromFile(fs.NewFile("root.jst", []byte(docs[n])), core.WithFixedSeedForRegex())
		r := ref{}
		if je := j.ValidateJAPI(); je == nil {
			b, err := j.ToJson()
			r = ref{err == nil, string(b), j.Title()}
		}
		refs[n] = r
	}
	canon := func(s string) string {
		v, _, err := jsonx.Parse([]byte(s))
		if err != nil {
			return "unparsable: " + err.Error()
		}
		return v.Canon()
	}
	var seq []string
	var rec func()
	rec = func() {
		if len(seq) > 0 {
			for _, n := range names {
				if !c.Next() {
					continue
				}
				c.Count("evaluations", 1)
				c.Distinct("seq|" + n + "|" + strings.Join(seq, ""))
				func() {
					defer func() {
						if recover() != nil {
							c.Count("skipped_crash", 1) // totality is C01's
						}
					}()
					j := kit.NewJApiFromFile(fs.NewFile("root.jst", []byte(docs[n])), core.WithFixedSeedForRegex())
					accepted := false
					for i, op := range seq {
						bad := ""
						switch op {
						case "V":
							je := j.ValidateJAPI()
							if i == indexOf(seq, "V") {
								accepted = je == nil
								if accepted != refs[n].ok {
									bad = fmt.Sprintf("ValidateJAPI after the calls %v says accepted=%v, on a fresh object %v", seq[:i], accepted, refs[n].ok)
								}
							}
						case "J":
							b, err := j.ToJson()
							if accepted && (err != nil || string(b) != refs[n].j) {
								bad = fmt.Sprintf("ToJson gives %s (err %v), a fresh validated object gives %s", clipS(string(b), 120), err, clipS(refs[n].j, 120))
							}
						case "I":
							b, err := j.ToJsonIndent()
							if accepted && (err != nil || canon(string(b)) != canon(refs[n].j)) {
								bad = fmt.Sprintf("ToJsonIndent (err %v) does not denote the value of the compact form of a fresh validated object", err)
							}
						case "T":
							if t := j.Title(); accepted && t != refs[n].title {
								bad = fmt.Sprintf("Title() = %q, a fresh validated object says %q", t, refs[n].title)
							}
						}
						if bad != "" {
							c.Violate("call-history-changes-result", "C09:sequence:"+op, fmt.Sprintf("document %s, calls %v, call %d (%s): %s", n, seq, i+1, op, bad), map[string]interface{}{"text": docs[n], "calls": strings.Join(seq, " ")})
							return
						}
					}
				}()
			}
		}
		if len(seq) == maxLen {
			return
		}
		for _, op := range ops {
			seq = append(seq, op)
			rec()
			seq = seq[:len(seq)-1]
		}
	}
	rec()
}

func indexOf(ss []string, x string) int {
	for i, s := range ss {
		if s == x {
			return i
		}
	}
	return -1
}
