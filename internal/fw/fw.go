// Package fw is the shared harness: sharded worker sub-processes, counters, samples,
// violations, known-findings matching, evidence and replay files.
//
// A check is a deterministic enumeration. The parent process starts K workers (same binary,
// `--worker i/K`); every worker walks the same enumeration and executes the cases whose ordinal
// is congruent to i mod K. Before a case runs its ordinal is written to a per-worker progress
// file, so that when a worker dies of something `recover` cannot catch (stack overflow,
// concurrent map write) the parent knows which case it was, records it and restarts the worker
// just past it.
package fw

import (
	"crypto/sha256"
	"encoding/binary"
	"encoding/hex"
	"encoding/json"
	"fmt"
	"os"
	"os/exec"
	"path/filepath"
	"runtime"
	"sort"
	"strconv"
	"strings"
	"sync"
	"sync/atomic"
	"time"
)

// Violation is one failed oracle on one case.
type Violation struct {
	Property string      `json:"property"`
	Oracle   string      `json:"oracle"`
	Sig      string      `json:"sig"` // stable locator used for known-findings matching
	Detail   string      `json:"detail"`
	Witness  interface{} `json:"witness"`
	Ordinal  int64       `json:"ordinal"`
}

// Result is what one worker reports.
type Result struct {
	Counters   map[string]int64       `json:"counters"`
	Samples    []interface{}          `json:"samples"`
	Violations []Violation            `json:"violations"`
	Notes      map[string]interface{} `json:"notes"`
	Exhaustive bool                   `json:"exhaustive"`
	Distinct   []string               `json:"distinct"` // hashes of distinct non-trivial cases (merged by parent)
	Fault      string                 `json:"fault,omitempty"`
}

// Ctx is handed to a check's Run function inside a worker.
type Ctx struct {
	ID       string
	Tier     string
	Seed     int64
	Shard    int
	Shards   int
	From     int64 // first ordinal this worker may execute (restart point)
	Deadline time.Time

	ordinal  int64
	busy     int32 // 1 while a case of this worker is executing
	beat     int64 // heartbeat: incremented by Count
	progress *os.File
	res      Result
	distinct map[[8]byte]struct{}
	mu       sync.Mutex
	maxViol  int
	sampleN  map[string]int
	expired  bool
}

func (c *Ctx) Quick() bool { return c.Tier != "thorough" }

// HangLimit is how long one case may run before it is declared a hang.
var HangLimit = 90 * time.Second

// Next advances the enumeration by one case and reports whether this worker executes it.
func (c *Ctx) Next() bool {
	o := atomic.AddInt64(&c.ordinal, 1) - 1
	atomic.StoreInt32(&c.busy, 0)
	if c.Shards > 1 && int(o%int64(c.Shards)) != c.Shard {
		return false
	}
	if o < c.From {
		return false
	}
	if c.progress != nil {
		var b [8]byte
		binary.LittleEndian.PutUint64(b[:], uint64(o))
		c.progress.WriteAt(b[:], 0)
	}
	atomic.StoreInt32(&c.busy, 1)
	return true
}

// Ordinal returns the ordinal of the case most recently returned by Next.
func (c *Ctx) Ordinal() int64 { return atomic.LoadInt64(&c.ordinal) - 1 }

// Describe stores a human-readable description of the running case next to the ordinal, so a
// fatal crash can be attributed without re-enumeration. Cheap enough to call per case.
func (c *Ctx) Describe(s string) {
	if c.progress == nil {
		return
	}
	if len(s) > 4000 {
		s = s[:4000]
	}
	var l [4]byte
	binary.LittleEndian.PutUint32(l[:], uint32(len(s)))
	c.progress.WriteAt(l[:], 8)
	c.progress.WriteAt([]byte(s), 12)
}

// Expired reports whether the internal time cap was hit; the run is then not exhaustive.
func (c *Ctx) Expired() bool {
	if c.expired {
		return true
	}
	if !c.Deadline.IsZero() && time.Now().After(c.Deadline) {
		c.expired = true
		c.res.Exhaustive = false
	}
	return c.expired
}

func (c *Ctx) Count(k string, n int64) {
	atomic.AddInt64(&c.beat, 1) // any counted work is a sign of life for the hang watchdog
	c.mu.Lock()
	c.res.Counters[k] += n
	c.mu.Unlock()
}

func (c *Ctx) Note(k string, v interface{}) {
	c.mu.Lock()
	c.res.Notes[k] = v
	c.mu.Unlock()
}

// NotExhaustive marks the run as having skipped part of the planned space.
func (c *Ctx) NotExhaustive(why string) {
	c.mu.Lock()
	c.res.Exhaustive = false
	c.res.Notes["not_exhaustive_reason"] = why
	c.mu.Unlock()
}

// Distinct records a non-trivial case by a content key; the parent counts distinct keys.
func (c *Ctx) Distinct(key string) {
	h := sha256.Sum256([]byte(key))
	var k [8]byte
	copy(k[:], h[:8])
	c.mu.Lock()
	c.distinct[k] = struct{}{}
	c.mu.Unlock()
}

// Sample keeps up to n samples per class.
func (c *Ctx) Sample(class string, n int, v interface{}) {
	c.mu.Lock()
	defer c.mu.Unlock()
	if c.sampleN[class] >= n {
		return
	}
	c.sampleN[class]++
	c.res.Samples = append(c.res.Samples, map[string]interface{}{"class": class, "case": v})
}

// Violate records a violation (keeps at most a bounded number per signature).
func (c *Ctx) Violate(oracle, sig, detail string, witness interface{}) {
	c.mu.Lock()
	defer c.mu.Unlock()
	c.res.Counters["violations_raw"]++
	n := 0
	for _, v := range c.res.Violations {
		if v.Sig == sig {
			n++
		}
	}
	if n >= 3 || len(c.res.Violations) >= c.maxViol {
		return
	}
	c.res.Violations = append(c.res.Violations, Violation{Property: c.ID, Oracle: oracle, Sig: sig, Detail: detail, Witness: witness, Ordinal: c.ordinal - 1})
}

// Confirm re-evaluates a failing oracle several times; a violation is only believed if it
// fails every time (no nondeterministic alarms).
func Confirm(f func() bool) bool {
	for i := 0; i < 5; i++ {
		if !f() {
			return false
		}
	}
	return true
}

// Check is a registered property check.
type Check struct {
	ID        string
	Level     string // evidence level
	Rule      string // how cases are generated and what makes one non-trivial
	Assume    []string
	Run       func(c *Ctx)
	InProcess bool // run in a single process (the check manages its own parallelism)
	Replay    func(witness json.RawMessage) (string, bool)
	// Prepare runs once in the parent before the workers start; it may write files into dir,
	// which the workers find under PrepDir().
	Prepare func(tier string, dir string) error
	// QuickCap / ThoroughCap are internal time caps.
	QuickCap, ThoroughCap time.Duration
}

// Solo, when set, runs one project given as JSON in this (fresh) process and returns a digest of
// everything observable; `vcheck solo <json>` prints it (used by C03 for fresh-process references).
var Solo func(projectJSON string) string

// RacePass, when set, runs the concurrency harness bodies on free-running goroutines
// (`vcheck racepass`, meant for a -race build).
var RacePass func()

var registry = map[string]*Check{}

// GenericReplay re-executes the documents found in a witness (set by the checks package).
var GenericReplay func(witness json.RawMessage) string

// DebugCmds are developer commands (`vcheck debug <name> ...`), never part of a verdict.
var DebugCmds = map[string]func(args []string){}

func Register(c *Check)       { registry[c.ID] = c }
func Lookup(id string) *Check { return registry[id] }
func IDs() []string {
	var s []string
	for k := range registry {
		s = append(s, k)
	}
	sort.Strings(s)
	return s
}

func newCtx(ch *Check, tier string, seed int64, shard, shards int, from int64, deadline time.Time) *Ctx {
	return &Ctx{ID: ch.ID, Tier: tier, Seed: seed, Shard: shard, Shards: shards, From: from, Deadline: deadline,
		res:      Result{Counters: map[string]int64{}, Notes: map[string]interface{}{}, Exhaustive: true},
		distinct: map[[8]byte]struct{}{}, maxViol: 40, sampleN: map[string]int{}}
}

// RunWorker is the entry point of `vcheck worker`.
func RunWorker(id, tier string, seed int64, shard, shards int, from int64, deadlineUnix int64, progressPath, resultPath string) int {
	ch := Lookup(id)
	if ch == nil {
		fmt.Fprintln(os.Stderr, "unknown check", id)
		return 2
	}
	var dl time.Time
	if deadlineUnix > 0 {
		dl = time.Unix(deadlineUnix, 0)
	}
	c := newCtx(ch, tier, seed, shard, shards, from, dl)
	if progressPath != "" {
		f, err := os.OpenFile(progressPath, os.O_RDWR|os.O_CREATE, 0o644)
		if err == nil {
			c.progress = f
			defer f.Close()
		}
	}
	// watchdog: a case that makes no progress for HangLimit is a hang (5-6 orders of magnitude
	// above a normal run); the parent attributes it to the case in the progress file
	done := make(chan struct{})
	go func() {
		last, since := int64(-1), time.Now()
		for {
			select {
			case <-done:
				return
			case <-time.After(2 * time.Second):
			}
			cur := atomic.LoadInt64(&c.ordinal) + atomic.LoadInt64(&c.beat)<<20
			if cur != last {
				last, since = cur, time.Now()
				continue
			}
			if time.Since(since) > HangLimit && atomic.LoadInt32(&c.busy) == 1 {
				fmt.Fprintf(os.Stderr, "fatal error: HANG no progress for %v in case ordinal %d\n", HangLimit, atomic.LoadInt64(&c.ordinal)-1)
				os.Exit(3)
			}
		}
	}()
	ch.Run(c)
	close(done)
	c.res.Counters["ordinals"] = c.ordinal
	for k := range c.distinct {
		c.res.Distinct = append(c.res.Distinct, hex.EncodeToString(k[:]))
	}
	b, _ := json.Marshal(c.res)
	if err := os.WriteFile(resultPath, b, 0o644); err != nil {
		fmt.Fprintln(os.Stderr, "cannot write result:", err)
		return 2
	}
	return 0
}

// Known finding record (known_findings.jsonl).
type Known struct {
	Status   string `json:"status"` // open | fixed
	Property string `json:"property"`
	Sig      string `json:"sig"`
	What     string `json:"what"`
	Commit   string `json:"commit,omitempty"`
}

func loadKnown(path string) []Known {
	b, err := os.ReadFile(path)
	if err != nil {
		return nil
	}
	var out []Known
	for _, l := range strings.Split(string(b), "\n") {
		l = strings.TrimSpace(l)
		if l == "" || strings.HasPrefix(l, "#") {
			continue
		}
		var k Known
		if json.Unmarshal([]byte(l), &k) == nil {
			out = append(out, k)
		}
	}
	return out
}

// PrepDir is where the parent's Prepare step left its files.
func PrepDir() string { return os.Getenv("VERIF_SCRATCH") }

// Scratch returns a fresh scratch directory (tmpfs when available), removed by the caller.
func Scratch(prefix string) string {
	base := os.Getenv("VERIF_SCRATCH")
	if base == "" {
		if st, err := os.Stat("/dev/shm"); err == nil && st.IsDir() {
			base = "/dev/shm"
		} else {
			base = os.TempDir()
		}
	}
	d, err := os.MkdirTemp(base, "verif-"+prefix+"-")
	if err != nil {
		panic(err)
	}
	return d
}

// Main runs a check as parent: spawns workers, merges, writes evidence, prints verdict.
func Main(id, tier string, seed int64, verifDir string) int {
	ch := Lookup(id)
	if ch == nil {
		fmt.Fprintln(os.Stderr, "unknown check", id)
		return 2
	}
	// known findings are read from verifDir; evidence and replays go to VERIF_OUT when set
	// (development runs against a scratch checkout must not overwrite the real evidence)
	outDir := verifDir
	if v := os.Getenv("VERIF_OUT"); v != "" {
		outDir = v
	}
	start := time.Now()
	capd := ch.QuickCap
	if tier == "thorough" {
		capd = ch.ThoroughCap
	}
	if v := os.Getenv("VERIF_CAP_S"); v != "" {
		if n, err := strconv.Atoi(v); err == nil {
			capd = time.Duration(n) * time.Second
		}
	}
	var deadline time.Time
	if capd > 0 {
		deadline = start.Add(capd)
	}
	scratch := Scratch(id)
	defer os.RemoveAll(scratch)

	merged := Result{Counters: map[string]int64{}, Notes: map[string]interface{}{}, Exhaustive: true}
	distinct := map[string]struct{}{}
	var crashes []Violation
	var mu sync.Mutex
	fault := ""

	ordinalsSeen := map[int64]int{} // final ordinal -> number of workers that finished with it
	mergeOne := func(r *Result) {
		mu.Lock()
		defer mu.Unlock()
		if r.Exhaustive {
			ordinalsSeen[r.Counters["ordinals"]]++
		}
		for k, v := range r.Counters {
			if k == "ordinals" {
				if v > merged.Counters[k] {
					merged.Counters[k] = v
				}
				continue
			}
			merged.Counters[k] += v
		}
		for k, v := range r.Notes {
			merged.Notes[k] = v
		}
		if len(merged.Samples) < 24 {
			merged.Samples = append(merged.Samples, r.Samples...)
		}
		merged.Violations = append(merged.Violations, r.Violations...)
		if !r.Exhaustive {
			merged.Exhaustive = false
		}
		for _, d := range r.Distinct {
			distinct[d] = struct{}{}
		}
	}

	if ch.Prepare != nil {
		os.Setenv("VERIF_SCRATCH", scratch)
		if err := ch.Prepare(tier, scratch); err != nil {
			fmt.Println("HARNESS-FAULT: prepare:", err)
			return 2
		}
	}
	if ch.InProcess {
		c := newCtx(ch, tier, seed, 0, 1, 0, deadline)
		ch.Run(c)
		c.res.Counters["ordinals"] = c.ordinal
		for k := range c.distinct {
			c.res.Distinct = append(c.res.Distinct, hex.EncodeToString(k[:]))
		}
		mergeOne(&c.res)
	} else {
		shards := runtime.NumCPU()
		if v := os.Getenv("VERIF_WORKERS"); v != "" {
			if n, err := strconv.Atoi(v); err == nil && n > 0 {
				shards = n
			}
		}
		self, _ := os.Executable()
		var wg sync.WaitGroup
		for s := 0; s < shards; s++ {
			wg.Add(1)
			go func(s int) {
				defer wg.Done()
				from := int64(0)
				for attempt := 0; attempt < 200; attempt++ {
					prog := filepath.Join(scratch, fmt.Sprintf("p%d", s))
					resf := filepath.Join(scratch, fmt.Sprintf("r%d.%d", s, attempt))
					os.Remove(prog)
					var dl int64
					if !deadline.IsZero() {
						dl = deadline.Unix()
					}
					cmd := exec.Command(self, "worker", id, tier, strconv.FormatInt(seed, 10), strconv.Itoa(s), strconv.Itoa(shards),
						strconv.FormatInt(from, 10), strconv.FormatInt(dl, 10), prog, resf)
					cmd.Env = append(os.Environ(), "GOMAXPROCS=2", "VERIF_SCRATCH="+scratch)
					var errb strings.Builder
					cmd.Stderr = &errb
					cmd.Stdout = os.Stderr
					err := cmd.Run()
					if b, rerr := os.ReadFile(resf); rerr == nil {
						var r Result
						if json.Unmarshal(b, &r) == nil {
							mergeOne(&r)
							if err == nil {
								return
							}
						}
					}
					// the worker died: attribute to the case in the progress file
					pb, _ := os.ReadFile(prog)
					if len(pb) < 8 {
						mu.Lock()
						fault = fmt.Sprintf("worker %d died before its first case: %v\n%s", s, err, tail(errb.String(), 2000))
						mu.Unlock()
						return
					}
					ord := int64(binary.LittleEndian.Uint64(pb[:8]))
					desc := ""
					if len(pb) >= 12 {
						n := int(binary.LittleEndian.Uint32(pb[8:12]))
						if 12+n <= len(pb) {
							desc = string(pb[12 : 12+n])
						}
					}
					st := errb.String()
					mu.Lock()
					crashes = append(crashes, Violation{Property: id, Oracle: "worker-died", Sig: "fatal:" + fatalSig(st),
						Detail:  fmt.Sprintf("worker process died (%v) while running case ordinal %d: %s", err, ord, firstLine(st)),
						Witness: map[string]interface{}{"ordinal": ord, "case": desc, "stderr_head": head(st, 1500)}, Ordinal: ord})
					merged.Counters["worker_restarts"]++
					mu.Unlock()
					// the partial counters of the dead worker are lost; its shard resumes after the case
					from = ord + 1
				}
			}(s)
		}
		wg.Wait()
	}
	merged.Violations = append(merged.Violations, crashes...)
	// every worker walks the whole enumeration and takes its share of it: all of them must have
	// counted the same number of cases, or the shares do not partition the space (a generator that
	// deals cases inside a case it has been dealt)
	if len(ordinalsSeen) > 1 && merged.Exhaustive && len(crashes) == 0 {
		merged.Exhaustive = false
		merged.Notes["harness_fault"] = fmt.Sprintf("workers counted different numbers of cases: %v", ordinalsSeen)
		fmt.Printf("HARNESS-FAULT: %s: workers counted different numbers of cases (%v): the shares do not partition the enumeration\n", id, ordinalsSeen)
		fault = "inconsistent sharding"
	}

	// known findings
	known := loadKnown(filepath.Join(verifDir, "known_findings.jsonl"))
	openBySig := map[string]Known{}
	for _, k := range known {
		if k.Status == "open" && k.Property == id {
			openBySig[k.Sig] = k
		}
	}
	sort.SliceStable(merged.Violations, func(i, j int) bool { return merged.Violations[i].Ordinal < merged.Violations[j].Ordinal })
	seenSig := map[string]bool{}
	var report []Violation
	knownSeen := map[string]bool{}
	for _, v := range merged.Violations {
		if k, ok := matchKnown(openBySig, v.Sig); ok {
			if !knownSeen[k.Sig] {
				knownSeen[k.Sig] = true
				fmt.Printf("KNOWN-FINDING: property=%s %s\n", id, k.What)
			}
			continue
		}
		if seenSig[v.Sig] {
			continue
		}
		seenSig[v.Sig] = true
		report = append(report, v)
	}
	code := 0
	if fault != "" {
		fmt.Println("HARNESS-FAULT:", fault)
		code = 2
	}
	if len(report) > 0 && code == 0 {
		code = 1
	}
	rdir := filepath.Join(outDir, "replays", id)
	if len(report) > 0 {
		os.MkdirAll(rdir, 0o755)
	}
	for i, v := range report {
		if i >= 12 {
			fmt.Printf("  (further violation with sig=%s: %s)\n", v.Sig, oneLine(v.Detail, 200))
			continue
		}
		b, _ := json.MarshalIndent(v, "", " ")
		h := sha256.Sum256(b)
		p := filepath.Join(rdir, hex.EncodeToString(h[:6])+".json")
		os.WriteFile(p, b, 0o644)
		fmt.Printf("VIOLATION property=%s replay=%s\n", id, p)
		fmt.Printf("  oracle=%s sig=%s\n  %s\n", v.Oracle, v.Sig, oneLine(v.Detail, 600))
	}

	// evidence
	wall := time.Since(start).Seconds()
	cov := map[string]interface{}{}
	for k, v := range merged.Counters {
		cov[k] = v
	}
	for k, v := range merged.Notes {
		cov[k] = v
	}
	ev := merged.Counters["evaluations"]
	if ev == 0 {
		ev = merged.Counters["transitions"]
	}
	cov["evaluations"] = ev
	cov["distinct_nontrivial"] = len(distinct)
	cov["rule"] = ch.Rule
	if len(merged.Samples) > 24 {
		merged.Samples = merged.Samples[:24]
	}
	if merged.Samples == nil {
		merged.Samples = []interface{}{}
	}
	cov["samples"] = merged.Samples
	if _, ok := cov["states"]; !ok {
		cov["states"] = len(distinct)
	}
	if _, ok := cov["transitions"]; !ok {
		cov["transitions"] = ev
	}
	if _, ok := cov["traces_validated_against_impl"]; !ok {
		cov["traces_validated_against_impl"] = ev
	}
	cov["exhaustive"] = merged.Exhaustive && fault == ""
	var kf []string
	for s := range knownSeen {
		kf = append(kf, s)
	}
	sort.Strings(kf)
	cov["known_findings_seen"] = kf
	assume := ch.Assume
	if assume == nil {
		assume = []string{}
	}
	if kf == nil {
		kf = []string{}
	}
	cov["known_findings_seen"] = kf
	evd := map[string]interface{}{
		"property_id": id, "tier": tier, "seed": seed, "level": ch.Level, "coverage": cov,
		"assumptions": assume, "wall_s": wall, "violations": len(report),
	}
	os.MkdirAll(filepath.Join(outDir, "evidence"), 0o755)
	b, _ := json.MarshalIndent(evd, "", " ")
	if err := os.WriteFile(filepath.Join(outDir, "evidence", id+".json"), b, 0o644); err != nil {
		fmt.Println("HARNESS-FAULT: cannot write evidence:", err)
		return 2
	}
	fmt.Printf("%s %s: evaluations=%d distinct=%d violations=%d known=%d exhaustive=%v wall=%.1fs\n", id, tier, ev, len(distinct), len(report), len(knownSeen), cov["exhaustive"], wall)
	return code
}

func matchKnown(open map[string]Known, sig string) (Known, bool) {
	if k, ok := open[sig]; ok {
		return k, true
	}
	// a listed signature ending in '*' names a cause whose consequences vary (prefix match)
	for ks, k := range open {
		if strings.HasSuffix(ks, "*") && strings.HasPrefix(sig, strings.TrimSuffix(ks, "*")) {
			return k, true
		}
	}
	return Known{}, false
}

func fatalSig(st string) string {
	// first "fatal error:" / "panic:" line plus first repo frame
	lines := strings.Split(st, "\n")
	kind := ""
	frame := ""
	for _, l := range lines {
		if kind == "" && (strings.HasPrefix(l, "fatal error:") || strings.HasPrefix(l, "panic:") || strings.HasPrefix(l, "runtime: goroutine stack exceeds")) {
			kind = strings.TrimSpace(l)
			if strings.HasPrefix(l, "runtime: goroutine stack exceeds") {
				kind = "stack overflow"
			}
		}
		if frame == "" && strings.HasPrefix(l, "github.com/jsightapi/jsight-api-go-library/") {
			frame = l
			if i := strings.Index(frame, "("); i > 0 {
				frame = frame[:i]
			}
			frame = strings.TrimPrefix(frame, "github.com/jsightapi/jsight-api-go-library/")
		}
	}
	return kind + "@" + frame
}

func firstLine(s string) string {
	if i := strings.IndexByte(s, '\n'); i >= 0 {
		return s[:i]
	}
	return s
}
func head(s string, n int) string {
	if len(s) > n {
		return s[:n]
	}
	return s
}
func tail(s string, n int) string {
	if len(s) > n {
		return s[len(s)-n:]
	}
	return s
}
func oneLine(s string, n int) string {
	s = strings.ReplaceAll(s, "\n", "\\n")
	return head(s, n)
}

// Replay prints a stored violation and re-executes it when the check provides a replayer.
func Replay(path string) int {
	b, err := os.ReadFile(path)
	if err != nil {
		fmt.Println("cannot read", path, err)
		return 2
	}
	var v struct {
		Property string          `json:"property"`
		Oracle   string          `json:"oracle"`
		Sig      string          `json:"sig"`
		Detail   string          `json:"detail"`
		Witness  json.RawMessage `json:"witness"`
	}
	if err := json.Unmarshal(b, &v); err != nil {
		fmt.Println("bad replay file:", err)
		return 2
	}
	fmt.Printf("property=%s oracle=%s sig=%s\nrecorded: %s\nwitness: %s\n", v.Property, v.Oracle, v.Sig, v.Detail, string(v.Witness))
	ch := Lookup(v.Property)
	if ch == nil || ch.Replay == nil {
		if GenericReplay != nil {
			fmt.Println(GenericReplay(v.Witness))
		} else {
			fmt.Println("(no replayer registered for this check; witness shown above)")
		}
		return 0
	}
	out, violates := ch.Replay(v.Witness)
	fmt.Println(out)
	if violates {
		fmt.Println("REPLAY: violation reproduced")
		return 1
	}
	fmt.Println("REPLAY: not reproduced")
	return 0
}
