//go:build verif

// Package escan is the explicit-state explorer of the byte-level scanner. A node is an input
// string; its abstract state is the scanner's VerifKey (plus harness-side context, see keyAt)
// read through the per-byte hook of the real Scanner.Next loop when the read position first
// reaches the end of the string. Successors are obtained by appending one alphabet token and
// running the real scanner from scratch on the longer string.
package escan

import (
	"fmt"
	"runtime"
	"sort"
	"strings"
	"sync"
	"sync/atomic"
	"unsafe"

	"github.com/jsightapi/jsight-api-go-library/directive"
	"github.com/jsightapi/jsight-api-go-library/scanner"
	"github.com/jsightapi/jsight-schema-go-library/fs"
)

// Lex is an emitted lexeme.
type Lex struct {
	Type       scanner.LexemeType
	Begin, End int
}

// Run is the observation of one scanner run.
type Run struct {
	Lex      []Lex
	Err      string // "" when the scanner reached end of input without error
	ErrIndex int
	Panic    string
	// KeyAt is the abstract state when the read position first reached Boundary ("" if never).
	KeyAt    string
	StackLen int
	// InTail: at the boundary the last emitted lexeme is a schema/enum body and only trivia
	// followed it; the schema library has looked at (part of) that trivia already.
	InTail bool
}

type recorder struct {
	boundary int
	input    string
	// lastBodyEnd is the end of the most recent schema/enum lexeme if no other lexeme followed it, else -1
	lastBodyEnd int
	inTail      bool
	// garbage is the step-stack depth when the scanner was last between directives: entries
	// below it were leaked by the request/response body states and are never due to be popped
	garbage    int
	unbalanced bool
	lastEnd    int // end of the last emitted lexeme (-1: none yet)
	key      string
	got      bool
	stackLen int
}

// recorder slots: the per-byte hook finds its scanner's recorder by a lock-free scan.
const nSlots = 64

type slot struct {
	s unsafe.Pointer // *scanner.Scanner
	r *recorder
}

var slots [nSlots]slot
var freeSlots = func() chan int {
	c := make(chan int, nSlots)
	for i := 0; i < nSlots; i++ {
		c <- i
	}
	return c
}()

// atomicKeys is the set of alphabet tokens (set by Explore) that may stand as a whole schema/enum text.
var atomicKeys atomic.Value // map[string]bool

func init() {
	scanner.VerifOnStep = func(s *scanner.Scanner) {
		p := unsafe.Pointer(s)
		for i := 0; i < nSlots; i++ {
			if atomic.LoadPointer(&slots[i].s) == p {
				r := slots[i].r
				if r.got {
					return
				}
				n := s.VerifStepStackLen()
				if n < r.garbage {
					r.unbalanced = true
				}
				if s.VerifExpectsKeyword() {
					r.garbage = n
				} else if t, part, ok := s.VerifOpenLexeme(); ok && t == scanner.KeywordBegin && len(part) == 1 {
					// a keyword has just begun: whatever is on the step stack now was leaked
					r.garbage = n
				}
				if int(s.CurrentIndex()) != r.boundary {
					return
				}
				r.got = true
				r.key = keyAt(s, r.input[:r.boundary], r.garbage)
				if r.unbalanced {
					r.key += "|UNBALANCED-POP"
				}
				// monitor: how an independent reading classifies the bytes skipped since the last
				// lexeme (the oracle's memory must be part of the state, or merging would hide it)
				ge := r.boundary
				if t, part, ok := s.VerifOpenLexeme(); ok {
					ge -= len(part)
					if t == scanner.AnnotationBegin && ge >= 2 {
						ge -= 2
					}
				}
				switch s.VerifStepName() {
				case "stateAnnotationSign2": // the '/' just read is a delimiter or will be re-read as a parameter
					if ge > 0 {
						ge--
					}
				case "stateAnnotationTextStart", "stateMultilineAnnotationTextStart": // delimiter read, annotation not begun
					if ge > 1 {
						ge -= 2
					}
				}
				if gs := r.lastEnd + 1; gs <= ge && gs >= 0 {
					r.key += "|g:" + gapClass(r.input[gs:ge])
				}
				r.inTail = r.lastBodyEnd >= 0 && r.lastBodyEnd < r.boundary
				r.stackLen = s.VerifStepStackLen()
				return
			}
		}
	}
}

// StackTop is the number of step-stack entries kept in the key (see DESIGN §4 E-SCAN).
const StackTop = 6

var keywords = []string{"JSIGHT", "INFO", "Title", "Version", "Description", "SERVER", "BaseUrl", "URL", "GET", "POST", "PUT",
	"PATCH", "DELETE", "Body", "Request", "Path", "Headers", "Query", "TYPE", "ENUM", "MACRO", "PASTE", "INCLUDE", "Protocol",
	"Method", "Params", "Result", "TAG", "Tags"}

// keyAt builds the abstract state: the scanner's own key plus the harness-side context that the
// look-ahead / look-behind of two step functions make relevant.
func keyAt(s *scanner.Scanner, consumed string, garbage int) string {
	k := s.VerifKey(0, 3)
	if i, j := strings.Index(k, "|S:"), strings.Index(k, "|E:"); i >= 0 && j > i {
		k = k[:i] + k[j:] // the step stack is keyed below, without the leaked entries
	}
	name := s.VerifStepName()
	// step stack above the leaked entries (see recorder.garbage)
	names := s.VerifStepStackNames()
	if garbage > len(names) {
		garbage = len(names)
	}
	st := names[garbage:]
	if len(st) > StackTop {
		st = append([]string{"+"}, st[len(st)-StackTop:]...)
	}
	k += "|K:" + strings.Join(st, ",")
	switch {
	case strings.Contains(name, "DescriptionText"):
		// isDirective() looks at the whole line: the future depends on what the current line
		// already holds when that is still a proper prefix of something a directive starts with.
		i := strings.LastIndexAny(consumed, "\n")
		line := consumed[i+1:]
		// the scanner also treats \r as a line end for its state, but LineFrom only splits on \n
		if j := strings.LastIndexByte(line, '\r'); j >= 0 {
			line = line[j+1:]
		}
		line = strings.TrimLeft(line, " \t")
		k += "|L:" + linePrefixClass(line)
	case strings.HasPrefix(name, "stateParameter"):
		// the text of the parameter being read decides the three predicates once it is complete
		if t, part, ok := s.VerifOpenLexeme(); ok && t == scanner.ParameterBegin {
			k += "|p:" + paramClass(string(part))
		}
	case name == "stateSchemaClosed" || name == "stateEnumBodyClose":
		// the schema library delimited the body by reading the rest of the input: what it has
		// read is part of the state. Only texts that are alphabet tokens are explored further.
		if t, part, ok := s.VerifOpenLexeme(); ok && (t == scanner.SchemaBegin || t == scanner.EnumBegin) {
			m, _ := atomicKeys.Load().(map[string]bool)
			if m == nil || m[string(part)] {
				k += "|x:" + string(part)
			} else {
				k += "|X:long"
			}
		}
	case strings.HasPrefix(name, "stateRegex"):
		// the regex oracle has memory too (is the next byte escaped?): an independent reading of
		// the open lexeme's text is part of the state, or a state whose own escape tracking has
		// gone wrong would be merged with the healthy one that has the same name
		if t, part, ok := s.VerifOpenLexeme(); ok && t == scanner.TextBegin {
			esc, closedAt := false, -1
			for i := 1; i < len(part); i++ {
				switch {
				case esc:
					esc = false
				case part[i] == '\\':
					esc = true
				case part[i] == '/' && closedAt < 0:
					closedAt = i
				}
			}
			switch {
			case closedAt >= 0:
				k += "|rx:closed-inside"
			case esc:
				k += "|rx:esc"
			default:
				k += "|rx:-"
			}
		}
	case name == "stateMultilineAnnotation":
		if n := len(consumed); n > 0 && consumed[n-1] == '*' {
			k += "|*"
		}
	}
	return k
}

// paramClass abstracts a partially read parameter to what can still become of the predicates
// "is a type / any / empty / regex": the words any, empty, regex and @name, optionally inside
// [ ] and/or double quotes. Everything else is "dead" (no completion changes a predicate).
func paramClass(p string) string {
	pre := ""
	if strings.HasPrefix(p, "\"") {
		pre += "\""
		p = p[1:]
	}
	if strings.HasPrefix(p, "[") {
		pre += "["
		p = p[1:]
	}
	core := p
	closers := ""
	if i := strings.IndexAny(p, "]\""); i >= 0 {
		core, closers = p[:i], p[i:]
	}
	if closers != "" && closers != "]" && closers != "\"" && closers != "]\"" {
		return "dead"
	}
	switch {
	case core == "":
		if closers != "" {
			return "dead"
		}
		return pre
	case core[0] == '@':
		for i := 1; i < len(core); i++ {
			c := core[i]
			if !(c == '-' || c == '_' || (c >= 'a' && c <= 'z') || (c >= 'A' && c <= 'Z') || (c >= '0' && c <= '9')) {
				return "dead"
			}
		}
		if len(core) == 1 {
			if closers != "" {
				return "dead"
			}
			return pre + "@"
		}
		return pre + "@N" + closers
	default:
		for _, w := range []string{"any", "empty", "regex"} {
			if core == w {
				return pre + w + closers
			}
			if closers == "" && strings.HasPrefix(w, core) {
				return pre + core
			}
		}
	}
	return "dead"
}

// gapClass reads skipped bytes as trivia the way the language describes it: blanks, line ends,
// '#' to the end of the line, "###" ... "###".
func gapClass(t string) string {
	i := 0
	for i < len(t) {
		c := t[i]
		switch {
		case c == ' ' || c == '\t' || c == '\n' || c == '\r':
			i++
		case c == '#':
			if rest := t[i:]; rest == "#" || rest == "##" {
				return "h" + rest // may still become a block comment
			}
			if strings.HasPrefix(t[i:], "###") {
				j := strings.Index(t[i+3:], "###")
				if j < 0 {
					// an open block comment; a trailing '#' or '##' may be the start of its end
					switch {
					case strings.HasSuffix(t[i+3:], "##"):
						return "block##"
					case strings.HasSuffix(t[i+3:], "#"):
						return "block#"
					}
					return "block"
				}
				i += 3 + j + 3
			} else {
				j := strings.IndexAny(t[i:], "\n\r")
				if j < 0 {
					return "line"
				}
				i += j
			}
		default:
			return "bad"
		}
	}
	return "clean"
}

func linePrefixClass(line string) string {
	if line == "" {
		return "^"
	}
	for _, kw := range keywords {
		if len(line) < len(kw) && strings.HasPrefix(kw, line) {
			return line
		}
	}
	if len(line) <= 2 && line[0] >= '1' && line[0] <= '5' {
		ok := true
		for i := 1; i < len(line); i++ {
			if line[i] < '0' || line[i] > '9' {
				ok = false
			}
		}
		if ok {
			return line
		}
	}
	return "-"
}

// Exec runs the real scanner over input and records the key at boundary.
func Exec(input string, boundary int) (r Run) {
	f := fs.NewFile("s.jst", []byte(input))
	s := scanner.NewJApiScanner(f)
	rec := &recorder{boundary: boundary, input: input, lastBodyEnd: -1, lastEnd: -1}
	si := <-freeSlots
	slots[si].r = rec
	atomic.StorePointer(&slots[si].s, unsafe.Pointer(s))
	defer func() {
		atomic.StorePointer(&slots[si].s, nil)
		freeSlots <- si
	}()
	defer func() {
		if p := recover(); p != nil {
			r.Panic = fmt.Sprint(p)
			r.KeyAt = rec.key
		}
	}()
	for {
		lex, je := s.Next()
		if je != nil {
			r.Err = je.Msg
			if r.Err == "" {
				r.Err = "(empty message)"
			}
			r.ErrIndex = int(je.Index())
			break
		}
		if lex == nil {
			break
		}
		r.Lex = append(r.Lex, Lex{lex.Type(), int(lex.Begin()), int(lex.End())})
		if e := int(lex.End()); e > rec.lastEnd {
			rec.lastEnd = e
		}
		if lex.Type() == scanner.Schema || lex.Type() == scanner.Enum {
			rec.lastBodyEnd = int(lex.End())
		} else {
			rec.lastBodyEnd = -1
		}
		if len(r.Lex) > 4*len(input)+16 {
			r.Panic = "scanner emits lexemes without consuming input (livelock)"
			break
		}
	}
	if rec.got {
		r.KeyAt = rec.key
		r.StackLen = rec.stackLen
		r.InTail = rec.inTail
	}
	return r
}

// Alphabet returns the token alphabet: all single bytes, then atomic multi-byte tokens.
func Alphabet(thorough bool) []string {
	var a []string
	// order: common structural bytes first so that shortest witnesses are readable
	first := "\n \t#()/\"*\\@[]{}"
	seen := map[byte]bool{}
	for i := 0; i < len(first); i++ {
		a = append(a, string(first[i]))
		seen[first[i]] = true
	}
	for b := 1; b < 256; b++ {
		if !seen[byte(b)] {
			a = append(a, string([]byte{byte(b)}))
		}
	}
	a = append(a, "\x00")
	a = append(a, "\r\n")
	a = append(a, keywords...)
	a = append(a, "200", "404", "599", "2xx")
	// parameters (atomic: their only lasting effect is on the three parameter predicates)
	a = append(a, " @t", " [@t]", " any", " empty", " regex", " jsight", " \"any\"", " \"regex\"", " \"@t\"", " /p/{id}", " \"q \\\" \\\\ z\"", " 0.3", " json-rpc-2.0", " word")
	// annotations
	a = append(a, " // note", " /* note */", " /*\nnote\n*/", "//", "/**/", "/*/")
	// jsight bodies, complete and broken
	a = append(a, "{}", "{\"a\":1}", "{\n  \"a\": 1, // note\n  \"b\": @t // {optional: true}\n}", "@t", "@t | @u", "[@t]", "\"s\"", "42", "true", "null",
		"{", "{\"a\":", "{]", "{}}", "{} x", "[1,2]", "[\"a\" // n\n]", "[", "[1,", "[]")
	// regex bodies
	a = append(a, "/ab/", "/a\\/b/", "/a")
	// comments
	a = append(a, "# c", "###\nblock\n###", "### open")
	// description material
	a = append(a, "text", "GET x", "(\n", "\n)\n", "  indented")
	if thorough {
		a = append(a, "{\"a\":{\"b\":[1,{\"c\":null}]}}", "{ // {allOf: \"@t\"}\n}", "\"x\" // {enum: @e}", "1 // {or: [\"@t\", \"@u\"]}",
			" \"\"", " \"", " @", " []", " [@]", "\r", "\n\n", " \t ", "####", "#####\n", "/**", "*/", " //\n", " /**/\n")
	}
	// de-duplicate, keep order
	out := a[:0]
	dup := map[string]bool{}
	for _, t := range a {
		if !dup[t] {
			dup[t] = true
			out = append(out, t)
		}
	}
	return out
}

// Edge is one explored transition.
type Edge struct {
	From  int    // state id
	Tok   int    // token index
	To    int    // state id, -1 = error (rejected), -2 = panic
	Input string // only kept for failing edges
}

// Graph is the explored state graph.
type Graph struct {
	Keys  []string // state id -> key
	Rep   []string // state id -> first representative input
	Rep2  []string // state id -> last discovered representative ("" if none other)
	Depth []int
	Succ  [][]int32 // state id -> per token successor id / -1 error / -2 panic / -3 end never reached
	Obs   [][]uint64
	Alpha []string

	Transitions int64
	Pruned      int64 // successors not expanded: schema text longer than any alphabet token
	MaxDepth    int
}

// Visitor is called for every executed run (concurrently).
type Visitor func(input string, boundary int, r *Run)

type job struct {
	state int
	rep   string
}

type res struct {
	state int
	tok   int
	key   string
	kind  int32 // 0 ok, -1 err, -2 panic, -3 unreachable boundary
	obs   uint64
	input string
}

func obsHash(r *Run, boundary int) uint64 {
	// lexemes relative to the boundary, FNV-1a
	var h uint64 = 1469598103934665603
	mix := func(x uint64) {
		h ^= x
		h *= 1099511628211
	}
	for _, l := range r.Lex {
		if l.End < boundary {
			continue
		}
		mix(uint64(l.Type) + 1)
		b := l.Begin - boundary
		if b < 0 {
			b = -1
		}
		mix(uint64(b + 7))
		mix(uint64(l.End - boundary + 7))
	}
	if r.Err != "" {
		// rejected runs are compared by verdict only: where the diagnostic points is not part of
		// the lexical observation (the schema library's look-ahead moves it around)
		return 7
	}
	if r.Panic != "" {
		mix(99991)
	}
	return h
}

// Explore runs the BFS. maxStates is a safety cap (0 = none); returns the graph and whether the
// search saturated.
func Explore(alpha []string, visit Visitor, maxStates int, expired func() bool) (*Graph, bool) {
	g := &Graph{Alpha: alpha}
	am := map[string]bool{}
	for _, t := range alpha {
		am[t] = true
	}
	atomicKeys.Store(am)
	index := map[string]int{}
	add := func(key, rep string, depth int) int {
		id := len(g.Keys)
		index[key] = id
		g.Keys = append(g.Keys, key)
		g.Rep = append(g.Rep, rep)
		g.Rep2 = append(g.Rep2, "")
		g.Depth = append(g.Depth, depth)
		g.Succ = append(g.Succ, nil)
		g.Obs = append(g.Obs, nil)
		return id
	}
	r0 := Exec("", 0)
	if visit != nil {
		visit("", 0, &r0)
	}
	add(r0.KeyAt, "", 0)
	frontier := []int{0}
	workers := runtime.NumCPU()
	depth := 0
	saturated := true
	for len(frontier) > 0 {
		depth++
		if expired != nil && expired() {
			saturated = false
			break
		}
		results := make([][]res, len(frontier))
		var wg sync.WaitGroup
		ch := make(chan int, len(frontier))
		for i := range frontier {
			ch <- i
		}
		close(ch)
		for w := 0; w < workers; w++ {
			wg.Add(1)
			go func() {
				defer wg.Done()
				for i := range ch {
					st := frontier[i]
					rep := g.Rep[st]
					rs := make([]res, len(alpha))
					for t, tok := range alpha {
						in := rep + tok
						r := Exec(in, len(in))
						if visit != nil {
							visit(in, len(rep), &r)
						}
						x := res{state: st, tok: t, obs: obsHash(&r, len(rep))}
						switch {
						case r.Panic != "":
							x.kind = -2
							x.input = in
						case r.KeyAt != "":
							// the boundary was reached: this prefix is a state, even when the input is
							// rejected AT its end (an open block comment, a regex without its closing
							// slash, a TYPE still waiting for its body): the rejection belongs to the
							// end-of-input transition, not to the prefix
							x.key = r.KeyAt
							x.input = in
						case r.Err != "":
							x.kind = -1
						default:
							x.kind = -3
						}
						rs[t] = x
					}
					results[i] = rs
				}
			}()
		}
		wg.Wait()
		var next []int
		for i, rs := range results {
			st := frontier[i]
			succ := make([]int32, len(alpha))
			obs := make([]uint64, len(alpha))
			for t, x := range rs {
				g.Transitions++
				obs[t] = x.obs
				if x.kind != 0 {
					succ[t] = x.kind
					continue
				}
				if strings.Contains(x.key, "|X:long") {
					g.Pruned++
					succ[t] = -4
					continue
				}
				id, ok := index[x.key]
				if !ok {
					id = add(x.key, x.input, depth)
					next = append(next, id)
				} else if x.input != g.Rep[id] {
					g.Rep2[id] = x.input
				}
				succ[t] = int32(id)
			}
			g.Succ[st] = succ
			g.Obs[st] = obs
		}
		if maxStates > 0 && len(g.Keys) > maxStates {
			saturated = false
			break
		}
		frontier = next
		g.MaxDepth = depth
	}
	return g, saturated
}

// Disagreement is a pair of representatives of one key that behave differently.
type Disagreement struct {
	Key, Rep1, Rep2, Token string
	What                   string
	// LibLookahead: one of the representatives ends in the trivia after a schema/enum body, a
	// region the schema library has already read; such differences are attributed to the
	// library's look-ahead, which is outside the scanner's own state.
	LibLookahead bool
}

// CrossCheck re-runs every token from the second representative of every state and compares the
// successor key and the boundary-relative observation with the first representative's.
func CrossCheck(g *Graph, expired func() bool) (compared int64, dis []Disagreement, libDis int64) {
	type item struct{ st int }
	var items []int
	for st, r2 := range g.Rep2 {
		if r2 != "" && g.Succ[st] != nil {
			items = append(items, st)
		}
	}
	index := map[string]int{}
	for i, k := range g.Keys {
		index[k] = i
	}
	var mu sync.Mutex
	var wg sync.WaitGroup
	ch := make(chan int, len(items))
	for _, i := range items {
		ch <- i
	}
	close(ch)
	for w := 0; w < runtime.NumCPU(); w++ {
		wg.Add(1)
		go func() {
			defer wg.Done()
			for st := range ch {
				if expired != nil && expired() {
					continue
				}
				rep := g.Rep2[st]
				lib := Exec(rep, len(rep)).InTail || Exec(g.Rep[st], len(g.Rep[st])).InTail
				var local []Disagreement
				var n int64
				for t, tok := range g.Alpha {
					in := rep + tok
					r := Exec(in, len(in))
					n++
					var got int32
					switch {
					case r.Panic != "":
						got = -2
					case r.KeyAt == "" && r.Err != "":
						got = -1
					case r.KeyAt == "":
						got = -3
					case strings.Contains(r.KeyAt, "|X:long"):
						got = -4
					default:
						id, ok := index[r.KeyAt]
						if !ok {
							got = -9
						} else {
							got = int32(id)
						}
					}
					want := g.Succ[st][t]
					if got != want {
						local = append(local, Disagreement{g.Keys[st], g.Rep[st], rep, tok, fmt.Sprintf("successor differs: rep1->%s rep2->%s", succName(g, want), succNameKey(g, got, r.KeyAt)), lib})
					} else if obsHash(&r, len(rep)) != g.Obs[st][t] {
						local = append(local, Disagreement{g.Keys[st], g.Rep[st], rep, tok, "same successor, different emitted lexemes relative to the boundary", lib})
					}
				}
				mu.Lock()
				compared += n
				for _, d := range local {
					if d.LibLookahead {
						libDis++
					} else if len(dis) < 200 {
						dis = append(dis, d)
					}
				}
				mu.Unlock()
			}
		}()
	}
	wg.Wait()
	sort.Slice(dis, func(i, j int) bool {
		if len(dis[i].Rep1) != len(dis[j].Rep1) {
			return len(dis[i].Rep1) < len(dis[j].Rep1)
		}
		return dis[i].Rep1+dis[i].Token < dis[j].Rep1+dis[j].Token
	})
	return compared, dis, libDis
}

func succName(g *Graph, id int32) string {
	switch id {
	case -1:
		return "ERR"
	case -2:
		return "PANIC"
	case -3:
		return "UNREACHED"
	case -4:
		return "PRUNED"
	case -9:
		return "NEWKEY"
	}
	return g.Keys[id]
}

func succNameKey(g *Graph, id int32, key string) string {
	if id == -9 {
		return "NEW:" + key
	}
	return succName(g, id)
}

// KnownKeyword reports whether the directive table knows the keyword.
func KnownKeyword(s string) bool {
	_, err := directive.NewDirectiveType(s)
	return err == nil
}
