package doc

import (
	"fmt"
	"strings"
)

// Rewrite is one meaning-preserving edit of a rendered document (C05).
type Rewrite struct {
	Kind string // comment-eol | comment-line | block-comment | blank | indent | trailing | newline | quote | paren
	Line int    // source line it applies to (-1: whole file)
	Arg  string
}

func (w Rewrite) String() string { return fmt.Sprintf("%s@%d(%q)", w.Kind, w.Line, w.Arg) }

// LineTexts splits the rendered text into lines (without line ends), given the style's NL.
func lineTexts(r *Rendered) []string {
	out := make([]string, len(r.Lines))
	for i, l := range r.Lines {
		out[i] = r.Text[l.Begin:l.End]
	}
	return out
}

// eligibleBetween reports whether something may be inserted before line i without touching free
// text or separating a directive from its body / opening parenthesis.
func eligibleBetween(r *Rendered, i int) bool {
	l := r.Lines[i]
	if l.Kind == LBody || l.Kind == LText || l.Kind == LTrivia {
		return false // (a fixture's own comment line may sit inside a block comment)
	}
	if l.Kind == LParen && strings.TrimSpace(r.Text[l.Begin:l.End]) == "(" {
		return false
	}
	if i > 0 && r.Lines[i-1].Kind == LText {
		return false // would be read as description text
	}
	return true
}

// TextRewrites enumerates all single text-level rewrites of a rendered document.
func TextRewrites(r *Rendered) []Rewrite {
	var out []Rewrite
	for i, l := range r.Lines {
		if l.Kind == LDirective || l.Kind == LParen {
			for _, c := range []string{" # c", " # a # b # c", "#", "# c", "### c ###", " ## x", " ##", "##", " \t# c", "\t # c"} {
				if l.Kind == LDirective && r.Lines[i].Span.Node.Kw == "Description" {
					continue // the rest of a Description line... keep clear of free text
				}
				if l.Kind == LParen && strings.TrimSpace(r.Text[l.Begin:l.End]) == "(" && c == "#" {
					// "(#" is fine too, keep
				}
				out = append(out, Rewrite{"comment-eol", i, c})
			}
			for _, t := range []string{" ", "\t", "  \t "} {
				if l.Kind == LDirective && r.Lines[i].Span.Node.Kw == "Description" {
					continue
				}
				out = append(out, Rewrite{"trailing", i, t})
			}
			for _, ind := range []string{"", " ", "    ", "\t"} {
				out = append(out, Rewrite{"indent", i, ind})
			}
		}
		if eligibleBetween(r, i) {
			for _, c := range []string{"# own line", "  # indented comment", "# x ## y # z", "##", "#", "## two"} {
				out = append(out, Rewrite{"comment-line", i, c})
			}
			out = append(out, Rewrite{"block-comment", i, "###\nblock # comment\n###"})
			out = append(out, Rewrite{"block-comment", i, "  ### one-line block ###"})
			for _, b := range []string{"", "\n", "  ", "\t\n "} {
				out = append(out, Rewrite{"blank", i, b})
			}
		}
	}
	for _, nl := range []string{"\r\n", "\r"} {
		out = append(out, Rewrite{"newline", -1, nl})
	}
	return out
}

// ApplyText applies a text-level rewrite. The line end of the style is assumed to be "\n".
func ApplyText(r *Rendered, w Rewrite) string {
	lines := lineTexts(r)
	nl := "\n"
	join := func(ls []string) string { return strings.Join(ls, nl) + nl }
	switch w.Kind {
	case "comment-eol", "trailing":
		lines[w.Line] += w.Arg
		return join(lines)
	case "indent":
		lines[w.Line] = w.Arg + strings.TrimLeft(lines[w.Line], " \t")
		return join(lines)
	case "comment-line", "block-comment", "blank":
		ins := strings.Split(w.Arg, "\n")
		out := append([]string{}, lines[:w.Line]...)
		out = append(out, ins...)
		out = append(out, lines[w.Line:]...)
		return join(out)
	case "newline":
		// free text keeps its bytes: line ends between two description-text lines stay LF
		var b strings.Builder
		for i, l := range lines {
			b.WriteString(l)
			keep := r.Lines[i].Kind == LText && i+1 < len(lines) && r.Lines[i+1].Kind == LText
			if keep {
				b.WriteString("\n")
			} else {
				b.WriteString(w.Arg)
			}
		}
		return b.String()
	}
	panic("unknown rewrite " + w.Kind)
}

// NeedsNoQuotes reports whether a bare parameter can be written in double quotes unchanged.
func NeedsNoQuotes(p string) bool {
	if p == "" || p[0] == '"' {
		return false
	}
	return !strings.ContainsAny(p, "\"\\ \t#")
}

// TreeRewrites enumerates single tree-level rewrites: quoting one bare parameter, or putting the
// children of one implicitly nesting directive between parentheses. Each returns a fresh forest.
func TreeRewrites(nn []*Node) []struct {
	W Rewrite
	F []*Node
} {
	var out []struct {
		W Rewrite
		F []*Node
	}
	idx := 0
	Walk(nn, func(n *Node, _ int, _ *Node) {
		my := idx
		idx++
		for pi, p := range n.Params {
			if NeedsNoQuotes(p) {
				c := CloneAll(nn)
				t := nth(c, my)
				t.Params[pi] = "\"" + p + "\""
				out = append(out, struct {
					W Rewrite
					F []*Node
				}{Rewrite{"quote", my, n.Kw + " " + p}, c})
			}
		}
		if len(n.Kids) > 0 && !n.Paren {
			c := CloneAll(nn)
			nth(c, my).Paren = true
			out = append(out, struct {
				W Rewrite
				F []*Node
			}{Rewrite{"paren", my, n.Kw}, c})
		}
	})
	return out
}

func nth(nn []*Node, k int) *Node {
	var res *Node
	i := 0
	Walk(nn, func(n *Node, _ int, _ *Node) {
		if i == k {
			res = n
		}
		i++
	})
	return res
}
