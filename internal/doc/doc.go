// Package doc is the document algebra of the generators: directive trees, a renderer with style
// knobs that records where every directive ended up in the text, and structural helpers
// (clone, walk, inline macros, split into files).
package doc

import (
	"strings"
)

// Node is one directive.
type Node struct {
	Kw     string   // keyword as written (GET, 200, TYPE, ...)
	Params []string // parameters in source form (already quoted when they need it)
	Ann    string   // annotation text ("" = none)
	Body   string   // schema / enum / regex / description text ("" = none); may span lines
	Kids   []*Node
	Paren  bool   // children are written between explicit parentheses
	Tag    string // generator's label (never rendered)
}

func N(kw string, params ...string) *Node { return &Node{Kw: kw, Params: params} }

func (n *Node) WithBody(b string) *Node  { n.Body = b; return n }
func (n *Node) WithAnn(a string) *Node   { n.Ann = a; return n }
func (n *Node) WithKids(k ...*Node) *Node { n.Kids = append(n.Kids, k...); return n }
func (n *Node) WithParen() *Node         { n.Paren = true; return n }
func (n *Node) WithTag(t string) *Node   { n.Tag = t; return n }

func (n *Node) Clone() *Node {
	c := *n
	c.Params = append([]string(nil), n.Params...)
	c.Kids = nil
	for _, k := range n.Kids {
		c.Kids = append(c.Kids, k.Clone())
	}
	return &c
}

func CloneAll(nn []*Node) []*Node {
	out := make([]*Node, len(nn))
	for i, n := range nn {
		out[i] = n.Clone()
	}
	return out
}

// Walk visits every node depth-first, parents before children.
func Walk(nn []*Node, f func(n *Node, depth int, parent *Node)) {
	var rec func(nn []*Node, d int, p *Node)
	rec = func(nn []*Node, d int, p *Node) {
		for _, n := range nn {
			f(n, d, p)
			rec(n.Kids, d+1, n)
		}
	}
	rec(nn, 0, nil)
}

func Count(nn []*Node) int {
	c := 0
	Walk(nn, func(*Node, int, *Node) { c++ })
	return c
}

// Style controls rendering.
type Style struct {
	Indent string // one level of indentation (default two spaces)
	NL     string // line end (default "\n")
	// BodyInline renders a one-line body on the directive line? (never: bodies start on the next line)
	FinalNL bool // end the file with a line end (default true via DefaultStyle)
}

func DefaultStyle() Style { return Style{Indent: "  ", NL: "\n", FinalNL: true} }

// Span locates a rendered directive in the text.
type Span struct {
	Node    *Node
	Begin   int // offset of the keyword's first byte
	KwEnd   int // offset just past the keyword
	LineEnd int // offset of the end of the directive line (before the line end)
	End     int // offset just past everything belonging to the directive (body, children, closing paren)
	Depth   int
}

// Rendered is a document text with the position of every directive.
type Rendered struct {
	Text  string
	Spans []*Span
	// Lines[i] is the kind of source line i (0-based): see LineKind.
	Lines []Line
}

// LineKind classifies rendered lines for the rewriters.
type LineKind int

const (
	LDirective LineKind = iota // a directive line (keyword, parameters, annotation)
	LBody                      // a body line (schema / enum / regex): structure, not free text
	LText                      // a description text line: its bytes are content
	LParen                     // a line holding only ( or )
	LTrivia                    // a comment / blank line of a recovered fixture (never produced by Render)
)

type Line struct {
	Kind  LineKind
	Begin int // offset of the line's first byte
	End   int // offset of the line end sequence
	Depth int
	Span  *Span // the directive this line belongs to
}

// DirectiveLine renders the first line of a directive without indentation.
func DirectiveLine(n *Node) string {
	var b strings.Builder
	b.WriteString(n.Kw)
	for _, p := range n.Params {
		b.WriteByte(' ')
		b.WriteString(p)
	}
	if n.Ann != "" {
		b.WriteString(" // ")
		b.WriteString(n.Ann)
	}
	return b.String()
}

// Render renders a forest.
func Render(nn []*Node, st Style) *Rendered {
	if st.Indent == "" && st.NL == "" {
		st = DefaultStyle()
	}
	if st.NL == "" {
		st.NL = "\n"
	}
	r := &Rendered{}
	var b strings.Builder
	line := func(kind LineKind, depth int, sp *Span, s string) {
		begin := b.Len()
		b.WriteString(strings.Repeat(st.Indent, depth))
		b.WriteString(s)
		r.Lines = append(r.Lines, Line{Kind: kind, Begin: begin, End: b.Len(), Depth: depth, Span: sp})
		b.WriteString(st.NL)
	}
	var rec func(nn []*Node, depth int)
	rec = func(nn []*Node, depth int) {
		for _, n := range nn {
			sp := &Span{Node: n, Depth: depth}
			r.Spans = append(r.Spans, sp)
			sp.Begin = b.Len() + len(strings.Repeat(st.Indent, depth))
			sp.KwEnd = sp.Begin + len(n.Kw)
			line(LDirective, depth, sp, DirectiveLine(n))
			sp.LineEnd = b.Len() - len(st.NL)
			if n.Body != "" {
				kind := LBody
				if n.Kw == "Description" {
					kind = LText
				}
				for _, l := range strings.Split(n.Body, "\n") {
					line(kind, depth+1, sp, l)
				}
			}
			if n.Paren {
				line(LParen, depth, sp, "(")
				rec(n.Kids, depth+1)
				line(LParen, depth, sp, ")")
			} else {
				rec(n.Kids, depth+1)
			}
			sp.End = b.Len()
		}
	}
	rec(nn, 0)
	r.Text = b.String()
	if !st.FinalNL && strings.HasSuffix(r.Text, st.NL) {
		r.Text = r.Text[:len(r.Text)-len(st.NL)]
	}
	return r
}

// Text renders with the default style.
func Text(nn []*Node) string { return Render(nn, DefaultStyle()).Text }

// SpanOf returns the span of a node.
func (r *Rendered) SpanOf(n *Node) *Span {
	for _, s := range r.Spans {
		if s.Node == n {
			return s
		}
	}
	return nil
}

// Inline replaces every PASTE by (a copy of) the body of the macro it names, recursively, and
// drops MACRO definitions. ok=false when a macro is undefined or the expansion is cyclic.
func Inline(nn []*Node) (out []*Node, ok bool) {
	macros := map[string]*Node{}
	for _, n := range nn {
		if n.Kw == "MACRO" && len(n.Params) > 0 {
			macros[n.Params[0]] = n
		}
	}
	ok = true
	var expand func(nn []*Node, stack map[string]bool) []*Node
	expand = func(nn []*Node, stack map[string]bool) []*Node {
		var res []*Node
		for _, n := range nn {
			switch n.Kw {
			case "MACRO":
				continue
			case "PASTE":
				name := ""
				if len(n.Params) > 0 {
					name = n.Params[0]
				}
				m := macros[name]
				if m == nil || stack[name] {
					ok = false
					continue
				}
				stack[name] = true
				res = append(res, expand(m.Kids, stack)...)
				delete(stack, name)
			default:
				c := *n
				c.Params = append([]string(nil), n.Params...)
				c.Kids = expand(n.Kids, stack)
				res = append(res, &c)
			}
		}
		return res
	}
	out = expand(nn, map[string]bool{})
	return out, ok
}

// Has reports whether any node in the forest has the keyword.
func Has(nn []*Node, kw string) bool {
	found := false
	Walk(nn, func(n *Node, _ int, _ *Node) {
		if n.Kw == kw {
			found = true
		}
	})
	return found
}
