package doc

// Block is a self-contained top-level piece of a document.
type Block struct {
	Name    string
	Nodes   func() []*Node // fresh nodes on every call
	Needs   []string       // names that must be declared somewhere in the document
	Defines []string       // names this block declares (@a, enum:@e, tag:@g, macro:@m, path:/p, server:@s)
	Kind    string         // type | enum | server | tag | info | http | rpc | macro
}

func obj(lines ...string) string {
	s := "{"
	for i, l := range lines {
		s += "\n  " + l
		if i < len(lines)-1 {
			s += ","
		}
	}
	return s + "\n}"
}

// Pool returns the block pool. Macros and URL blocks with several children are parenthesised so
// that a block is self-delimiting wherever it is placed (DESIGN §5 C10).
func Pool() []Block {
	one := func(f func() *Node) func() []*Node { return func() []*Node { return []*Node{f()} } }
	return []Block{
		{Name: "T_a", Kind: "type", Defines: []string{"@a"}, Nodes: one(func() *Node {
			return N("TYPE", "@a").WithBody("{\n  \"id\": 1, // ident\n  \"nm\": \"x\"\n}")
		})},
		{Name: "T_b", Kind: "type", Defines: []string{"@b"}, Needs: []string{"@a"}, Nodes: one(func() *Node {
			return N("TYPE", "@b").WithAnn("uses a").WithBody("{\n  \"a\": @a,\n  \"n\": 2\n}")
		})},
		{Name: "T_bb", Kind: "type", Defines: []string{"@bb"}, Needs: []string{"@b"}, Nodes: one(func() *Node {
			return N("TYPE", "@bb").WithBody("{\n  \"b\": @b\n}")
		})},
		{Name: "T_c", Kind: "type", Defines: []string{"@c"}, Nodes: one(func() *Node {
			return N("TYPE", "@c").WithBody("\"str\" // {minLength: 1}")
		})},
		{Name: "T_r", Kind: "type", Defines: []string{"@r"}, Nodes: one(func() *Node {
			return N("TYPE", "@r", "regex").WithBody("/ab/")
		})},
		{Name: "T_y", Kind: "type", Defines: []string{"@y"}, Nodes: one(func() *Node { return N("TYPE", "@y", "any") })},
		{Name: "T_d", Kind: "type", Defines: []string{"@d"}, Needs: []string{"enum:@e"}, Nodes: one(func() *Node {
			return N("TYPE", "@d").WithBody("{\n  \"k\": \"x\" // {enum: @e}\n}")
		})},
		{Name: "T_dd", Kind: "type", Defines: []string{"@dd"}, Needs: []string{"@d"}, Nodes: one(func() *Node {
			return N("TYPE", "@dd").WithBody("{\n  \"d\": @d\n}")
		})},
		{Name: "T_h", Kind: "type", Defines: []string{"@h"}, Needs: []string{"@a"}, Nodes: one(func() *Node {
			return N("TYPE", "@h").WithBody("{ // {allOf: \"@a\"}\n  \"own\": 2\n}")
		})},
		{Name: "T_hh", Kind: "type", Defines: []string{"@hh"}, Needs: []string{"@h"}, Nodes: one(func() *Node {
			return N("TYPE", "@hh").WithBody("{ // {allOf: \"@h\"}\n  \"top\": 3\n}")
		})},
		{Name: "T_mid", Kind: "type", Defines: []string{"@mid"}, Needs: []string{"@a"}, Nodes: one(func() *Node {
			return N("TYPE", "@mid").WithBody("{ // {allOf: \"@a\"}\n}")
		})},
		{Name: "T_leaf", Kind: "type", Defines: []string{"@leaf"}, Needs: []string{"@mid"}, Nodes: one(func() *Node {
			return N("TYPE", "@leaf").WithBody("{ // {allOf: \"@mid\"}\n  \"lf\": 1\n}")
		})},
		// a property whose key is a type reference ("key shortcut"), inherited through a chain of two
		{Name: "T_ks", Kind: "type", Defines: []string{"@ks"}, Needs: []string{"@c"}, Nodes: one(func() *Node {
			return N("TYPE", "@ks").WithBody("{\n  \"pc\": 3,\n  @c: 4\n}")
		})},
		{Name: "T_ksm", Kind: "type", Defines: []string{"@ksm"}, Needs: []string{"@ks"}, Nodes: one(func() *Node {
			return N("TYPE", "@ksm").WithBody("{ // {allOf: \"@ks\"}\n  \"pm\": 2\n}")
		})},
		{Name: "T_kst", Kind: "type", Defines: []string{"@kst"}, Needs: []string{"@ksm"}, Nodes: one(func() *Node {
			return N("TYPE", "@kst").WithBody("{ // {allOf: \"@ksm\"}\n  \"pt\": 1\n}")
		})},
		{Name: "T_nest", Kind: "type", Defines: []string{"@nest"}, Needs: []string{"@a"}, Nodes: one(func() *Node {
			return N("TYPE", "@nest").WithBody("{\n  \"in\": { // {allOf: \"@a\"}\n    \"x\": 1\n  }\n}")
		})},
		{Name: "T_l", Kind: "type", Defines: []string{"@l"}, Needs: []string{"@a"}, Nodes: one(func() *Node {
			return N("TYPE", "@l").WithBody("[@a]")
		})},
		{Name: "T_o", Kind: "type", Defines: []string{"@o"}, Needs: []string{"@a", "@c"}, Nodes: one(func() *Node {
			return N("TYPE", "@o").WithBody("@a | @c")
		})},
		{Name: "E_e", Kind: "enum", Defines: []string{"enum:@e"}, Nodes: one(func() *Node {
			return N("ENUM", "@e").WithAnn("colours").WithBody("[\n  \"x\", // ex\n  \"y\"\n]")
		})},
		{Name: "S_s", Kind: "server", Defines: []string{"server:@s"}, Nodes: one(func() *Node {
			return N("SERVER", "@s").WithAnn("main").WithKids(N("BaseUrl", "\"https://x.io/\""))
		})},
		{Name: "G_g", Kind: "tag", Defines: []string{"tag:@g"}, Nodes: one(func() *Node {
			return N("TAG", "@g").WithAnn("Group G").WithKids(N("Description").WithBody("About g\nsecond line"))
		})},
		{Name: "G_k", Kind: "tag", Defines: []string{"tag:@k"}, Nodes: one(func() *Node { return N("TAG", "@k") })},
		{Name: "I", Kind: "info", Defines: []string{"info"}, Nodes: one(func() *Node {
			return N("INFO").WithKids(N("Title", "\"My API\""), N("Version", "1.2"), N("Description").WithBody("Info text"))
		})},
		{Name: "H_cats", Kind: "http", Defines: []string{"path:/cats"}, Nodes: one(func() *Node {
			return N("GET", "/cats").WithAnn("list cats").WithKids(
				N("Description").WithBody("Lists\n  all cats"),
				N("Query", "\"a=1\"").WithBody("{\n  \"a\": 1\n}"),
				N("200").WithAnn("ok").WithBody("[1, 2]"),
				N("404", "any"))
		})},
		{Name: "H_dogs", Kind: "http", Defines: []string{"path:/dogs"}, Nodes: one(func() *Node {
			return N("URL", "/dogs").WithParen().WithKids(
				N("GET").WithKids(N("200", "empty")),
				N("POST").WithAnn("make").WithKids(
					N("Request").WithBody("{\n  \"n\": 1\n}"),
					N("201").WithKids(N("Headers").WithBody("{\n  \"X-Id\": \"1\"\n}"), N("Body", "regex").WithBody("/ok/"))))
		})},
		{Name: "H_pigs", Kind: "http", Defines: []string{"path:/pigs"}, Needs: []string{"@a"}, Nodes: one(func() *Node {
			return N("POST", "/pigs/{id}").WithKids(
				N("Path").WithBody("{\n  \"id\": 1 // pig id\n}"),
				N("Request", "@a"),
				N("200", "[@a]"),
				N("500").WithKids(N("Body", "@a")))
		})},
		// schemas with allOf in every HTTP schema place of one interaction (the catalog expands them in
		// passes over all interactions: a pass that stops early shows as an order dependence)
		{Name: "H_inh", Kind: "http", Defines: []string{"path:/inh"}, Needs: []string{"@a"}, Nodes: one(func() *Node {
			inh := func(own string) string { return "{ // {allOf: \"@a\"}\n  \"" + own + "\": 1\n}" }
			return N("POST", "/inh/{id}/{nm}/{pown}").WithKids(
				N("Path").WithBody(inh("pown")),
				N("Query").WithBody(inh("qown")),
				N("Request").WithKids(N("Headers").WithBody(inh("hown")), N("Body").WithBody(inh("bown"))),
				N("200").WithKids(N("Headers").WithBody(inh("rhown")), N("Body").WithBody(inh("rbown"))))
		})},
		// free text directly followed by the shortest keyword lines there are (a response code with its
		// body below, a method without parameters)
		{Name: "H_d3", Kind: "http", Defines: []string{"path:/d3"}, Nodes: one(func() *Node {
			return N("URL", "/d3").WithParen().WithKids(
				N("GET").WithKids(N("Description").WithBody("Gets it"), N("200").WithBody("{\n  \"ok\": 1\n}")),
				N("POST").WithKids(N("201", "empty"), N("Description").WithBody("Posts it\nin two lines")),
				N("PUT").WithKids(N("404").WithBody("{}")))
		})},
		// path parameters declared at two levels of one URL block, the method's own Path between
		// parentheses
		{Name: "H_pp", Kind: "http", Defines: []string{"path:/pp"}, Nodes: one(func() *Node {
			return N("URL", "/pp/{a}/{b}/{c}").WithParen().WithKids(
				N("Path").WithBody("{\n  \"a\": 1\n}"),
				N("GET").WithParen().WithKids(N("Path").WithBody("{\n  \"b\": 2\n}"), N("200", "any")),
				N("DELETE").WithParen().WithKids(N("204", "empty")))
		})},
		// a path whose first segment is a parameter; a Path body reached through a chain of type
		// references; Path properties whose schema is a user type (integer, float, string)
		{Name: "H_rootp", Kind: "http", Defines: []string{"path:/{tenant}", "tagentry:@_7Btenant_7D"}, Nodes: one(func() *Node {
			return N("URL", "/{tenant}/users").WithParen().WithKids(N("GET").WithKids(N("200", "any")))
		})},
		// the shortest path there is: a parameter of exactly one byte, as a method's path and as a URL's
		{Name: "H_slash", Kind: "http", Defines: []string{"path:/", "tagentry:@_"}, Nodes: func() []*Node {
			return []*Node{
				N("GET", "/").WithKids(N("200", "any")),
				N("URL", "/").WithParen().WithKids(N("POST").WithKids(N("200", "any"))),
			}
		}},
		{Name: "T_pk2", Kind: "type", Defines: []string{"@pk2"}, Nodes: one(func() *Node {
			return N("TYPE", "@pk2").WithBody("{\n  \"kid\": 1\n}")
		})},
		{Name: "T_pk", Kind: "type", Defines: []string{"@pk"}, Needs: []string{"@pk2"}, Nodes: one(func() *Node {
			return N("TYPE", "@pk").WithBody("@pk2")
		})},
		{Name: "H_alias", Kind: "http", Defines: []string{"path:/al"}, Needs: []string{"@pk"}, Nodes: one(func() *Node {
			return N("GET", "/al/{kid}").WithKids(N("Path").WithBody("@pk"), N("200", "any"))
		})},
		{Name: "T_opt", Kind: "type", Defines: []string{"@opt"}, Nodes: one(func() *Node {
			return N("TYPE", "@opt").WithBody("{\n  \"oid\": 1 // {optional: true}\n}")
		})},
		{Name: "T_int", Kind: "type", Defines: []string{"@int"}, Nodes: one(func() *Node { return N("TYPE", "@int").WithBody("12 // {min: 1}") })},
		{Name: "T_flt", Kind: "type", Defines: []string{"@flt"}, Nodes: one(func() *Node { return N("TYPE", "@flt").WithBody("1.5") })},
		{Name: "H_pref", Kind: "http", Defines: []string{"path:/pref"}, Needs: []string{"@int", "@flt", "@c"}, Nodes: one(func() *Node {
			return N("GET", "/pref/{i}/{f}/{s}").WithKids(
				N("Path").WithBody("{\n  \"i\": @int,\n  \"f\": 2.5, // {type: \"@flt\"}\n  \"s\": @c\n}"),
				N("200", "any"))
		})},
		// URL-level Tags written last, after a method without and a method with parentheses
		{Name: "H_tagslast", Kind: "http", Defines: []string{"path:/tl"}, Needs: []string{"tag:@g"}, Nodes: one(func() *Node {
			return N("URL", "/tl").WithParen().WithKids(
				N("GET").WithKids(N("200", "any")),
				N("DELETE").WithParen().WithKids(N("204", "empty")),
				N("Tags", "@g"))
		})},
		// a declared tag whose name is the automatic tag name of a path that also has tagless methods
		{Name: "G_cats", Kind: "tag", Defines: []string{"tag:@cats"}, Nodes: one(func() *Node { return N("TAG", "@cats").WithAnn("All cats") })},
		{Name: "H_usecats", Kind: "http", Defines: []string{"path:/usecats"}, Needs: []string{"tag:@cats"}, Nodes: one(func() *Node {
			return N("GET", "/usecats").WithKids(N("Tags", "@cats"), N("200", "any"))
		})},
		// one macro with a description of several lines, pasted by two methods
		{Name: "M_desc", Kind: "macro", Defines: []string{"macro:@md"}, Nodes: one(func() *Node {
			return N("MACRO", "@md").WithParen().WithKids(N("404", "any"), N("Description").WithBody("Line one\n  line two\nline three\nline four\nline five\nline six, the last."))
		})},
		{Name: "H_d12", Kind: "http", Defines: []string{"path:/d1", "path:/d2"}, Needs: []string{"macro:@md"}, Nodes: func() []*Node {
			return []*Node{
				N("GET", "/d1").WithParen().WithKids(N("PASTE", "@md"), N("200", "any")),
				N("POST", "/d2").WithParen().WithKids(N("200", "any"), N("PASTE", "@md")),
			}
		}},
		{Name: "H_tag", Kind: "http", Defines: []string{"path:/tagged"}, Needs: []string{"tag:@g"}, Nodes: one(func() *Node {
			return N("DELETE", "/tagged").WithKids(N("Tags", "@g"), N("204", "empty"))
		})},
		{Name: "H_urltag", Kind: "http", Defines: []string{"path:/ut"}, Needs: []string{"tag:@g", "tag:@k"}, Nodes: one(func() *Node {
			return N("URL", "/ut").WithParen().WithKids(
				N("Tags", "@g"),
				N("GET").WithKids(N("200", "any")),
				N("PUT").WithKids(N("Tags", "@k", "@g"), N("200", "any")))
		})},
		{Name: "H_hdr", Kind: "http", Defines: []string{"path:/hdr"}, Nodes: one(func() *Node {
			return N("PATCH", "/hdr").WithKids(
				N("Request").WithKids(N("Headers").WithBody("{\n  \"H\": \"v\"\n}"), N("Body", "any")),
				N("200").WithBody("{\n  \"ok\": true\n}"))
		})},
		// a URL block with URL-level Tags and a method of its own, and a method block on the same path
		// written on its own (it is not enclosed by the URL: the automatic tag)
		{Name: "H_samepath", Kind: "http", Defines: []string{"path:/sp"}, Needs: []string{"tag:@g"}, Nodes: func() []*Node {
			return []*Node{
				N("URL", "/sp").WithParen().WithKids(N("Tags", "@g"), N("GET").WithKids(N("200", "any"))),
				N("POST", "/sp").WithParen().WithKids(N("200", "any")),
			}
		}},
		// a response / a request that carries its schema itself AND has a Headers child below it
		{Name: "H_bh", Kind: "http", Defines: []string{"path:/bh"}, Nodes: one(func() *Node {
			return N("POST", "/bh").WithKids(
				N("Request").WithBody("{\n  \"rq\": 1\n}").WithKids(N("Headers").WithBody("{\n  \"X-Token\": \"abc\"\n}")),
				N("200").WithBody("{\n  \"id\": 1\n}").WithKids(N("Headers").WithBody("{\n  \"X-Total\": 1\n}")))
		})},
		{Name: "R_rpc", Kind: "rpc", Defines: []string{"path:/rpc"}, Nodes: one(func() *Node {
			return N("URL", "/rpc").WithParen().WithKids(
				N("Protocol", "json-rpc-2.0"),
				N("Method", "foo").WithAnn("does foo").WithKids(
					N("Description").WithBody("Foo method"),
					N("Params").WithBody("{\n  \"p\": 1\n}"),
					N("Result").WithBody("{\n  \"r\": true\n}")),
				N("Method", "bar"))
		})},
		// URL blocks with a path parameter and no HTTP method of their own: a JSON-RPC endpoint, and a
		// URL that holds nothing but its Path
		{Name: "R_param", Kind: "rpc", Defines: []string{"path:/rp"}, Nodes: one(func() *Node {
			return N("URL", "/rp/{rid}/rpc").WithParen().WithKids(
				N("Protocol", "json-rpc-2.0"),
				N("Method", "get"))
		})},
		{Name: "U_bare", Kind: "http", Defines: []string{"path:/ub"}, Nodes: func() []*Node {
			return []*Node{
				N("URL", "/ub/{uid}").WithParen().WithKids(N("Path").WithBody("{\n  \"uid\": \"u\"\n}")),
				N("GET", "/ub/{uid}/photo").WithKids(N("200", "any")),
			}
		}},
		{Name: "M_resp", Kind: "macro", Defines: []string{"macro:@resp"}, Nodes: one(func() *Node {
			return N("MACRO", "@resp").WithParen().WithKids(N("404", "any"), N("500").WithBody("{\n  \"e\": \"m\"\n}"))
		})},
		{Name: "H_paste", Kind: "http", Defines: []string{"path:/pst"}, Needs: []string{"macro:@resp"}, Nodes: one(func() *Node {
			return N("GET", "/pst").WithKids(N("200", "any"), N("PASTE", "@resp"))
		})},
		{Name: "M_top", Kind: "macro", Defines: []string{"macro:@mt", "@mt1", "path:/mtp"}, Nodes: func() []*Node {
			return []*Node{
				N("MACRO", "@mt").WithParen().WithKids(
					N("TYPE", "@mt1").WithBody("{\n  \"z\": 1\n}"),
					N("GET", "/mtp").WithKids(N("200", "@mt1"))),
				N("PASTE", "@mt"),
			}
		}},
		// a macro whose children nest by position (no parentheses), holding an implicit URL block
		// that a path-bearing method leaves; pasted before its definition; a parenthesised macro
		// nobody pastes ends the implicit one
		{Name: "M_impl", Kind: "macro", Defines: []string{"macro:@mi", "macro:@mi_end", "path:/mi"}, Nodes: func() []*Node {
			return []*Node{
				N("PASTE", "@mi"),
				N("MACRO", "@mi").WithKids(
					N("URL", "/mi/a").WithKids(N("GET").WithKids(N("200", "any"))),
					N("POST", "/mi/b").WithKids(N("200", "any"))),
				N("MACRO", "@mi_end").WithParen().WithKids(N("200", "any")),
			}
		}},
		// a macro holding a whole method with its Path, pasted into a URL
		{Name: "M_item", Kind: "macro", Defines: []string{"macro:@item", "path:/itm"}, Nodes: func() []*Node {
			return []*Node{
				N("MACRO", "@item").WithParen().WithKids(N("GET").WithParen().WithKids(N("Path").WithBody("{\n  \"id\": 1\n}"), N("200", "any"))),
				N("URL", "/itm/{id}").WithParen().WithKids(N("PASTE", "@item")),
			}
		}},
		{Name: "M_nest", Kind: "macro", Defines: []string{"macro:@outer"}, Needs: []string{"macro:@resp"}, Nodes: one(func() *Node {
			return N("MACRO", "@outer").WithParen().WithKids(N("200", "any"), N("PASTE", "@resp"))
		})},
		// not parenthesised on purpose: a URL block whose context is left by climbing out of its
		// children, directly followed by a method with its own path (which must not join the block)
		{Name: "H_impl", Kind: "http", Defines: []string{"path:/impl"}, Needs: []string{"tag:@g"}, Nodes: func() []*Node {
			return []*Node{
				N("URL", "/impl").WithKids(N("Tags", "@g"), N("GET").WithKids(N("200", "any"))),
				N("POST", "/impl/sub").WithKids(N("200", "any")),
			}
		}},
		{Name: "R_impl", Kind: "rpc", Defines: []string{"path:/rimpl", "path:/rimpl2"}, Nodes: func() []*Node {
			return []*Node{
				N("URL", "/rimpl").WithKids(N("Protocol", "json-rpc-2.0"), N("Method", "q").WithKids(N("Params").WithBody("[1]"))),
				N("GET", "/rimpl2/x").WithKids(N("200", "any")),
			}
		}},
		{Name: "H_paste2", Kind: "http", Defines: []string{"path:/pst2"}, Needs: []string{"macro:@outer"}, Nodes: one(func() *Node {
			return N("URL", "/pst2").WithParen().WithKids(N("POST").WithKids(N("Request", "any"), N("PASTE", "@outer")))
		})},
	}
}

// PoolByName indexes the pool.
func PoolByName() map[string]Block {
	m := map[string]Block{}
	for _, b := range Pool() {
		m[b.Name] = b
	}
	return m
}

// Jsight returns the mandatory first directive.
func Jsight() *Node { return N("JSIGHT", "0.3") }

// Assemble builds a document from blocks (JSIGHT first).
func Assemble(bb []Block) []*Node {
	out := []*Node{Jsight()}
	for _, b := range bb {
		out = append(out, b.Nodes()...)
	}
	return out
}

// Closed reports whether every name needed by a block of the set is defined in the set.
func Closed(bb []Block) bool {
	def := map[string]bool{}
	for _, b := range bb {
		for _, d := range b.Defines {
			def[d] = true
		}
	}
	for _, b := range bb {
		for _, n := range b.Needs {
			if !def[n] {
				return false
			}
		}
	}
	return true
}

// Closure adds (in pool order, before the blocks that need them) the blocks needed to close the set.
func Closure(bb []Block) []Block {
	pool := Pool()
	have := map[string]bool{}
	for _, b := range bb {
		have[b.Name] = true
	}
	out := append([]Block(nil), bb...)
	for changed := true; changed; {
		changed = false
		def := map[string]bool{}
		for _, b := range out {
			for _, d := range b.Defines {
				def[d] = true
			}
		}
		for _, b := range out {
			for _, n := range b.Needs {
				if def[n] {
					continue
				}
				for _, p := range pool {
					if have[p.Name] {
						continue
					}
					for _, d := range p.Defines {
						if d == n {
							out = append([]Block{p}, out...)
							have[p.Name] = true
							def[n] = true
							changed = true
						}
					}
					if def[n] {
						break
					}
				}
			}
		}
	}
	return out
}
