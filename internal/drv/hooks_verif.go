//go:build verif

package drv

import "github.com/jsightapi/jsight-api-go-library/jerr"

func init() {
	FileNameOf = func(e *jerr.JApiError) string { return e.VerifFileName() }
	FileLenOf = func(e *jerr.JApiError) int { return e.VerifFileLen() }
}
