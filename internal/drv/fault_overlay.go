//go:build verifoverlay

package drv

import (
	"strings"
	"sync"

	liberrors "github.com/jsightapi/jsight-schema-go-library/errors"
)

var (
	faultMu   sync.Mutex
	lastFault string
)

func init() {
	liberrors.VerifFaultHook = func(r interface{}, stack []byte) {
		faultMu.Lock()
		lastFault = libFrame(string(stack))
		faultMu.Unlock()
	}
	resetFault = func() {
		faultMu.Lock()
		lastFault = ""
		faultMu.Unlock()
	}
	takeFault = func() string {
		faultMu.Lock()
		defer faultMu.Unlock()
		return lastFault
	}
}

// libFrame returns the first frame after the panic in the recovered stack.
func libFrame(st string) string {
	lines := strings.Split(st, "\n")
	seen := false
	for _, l := range lines {
		if strings.HasPrefix(l, "panic(") {
			seen = true
			continue
		}
		if seen && strings.HasPrefix(l, "github.com/jsightapi/") {
			if i := strings.LastIndex(l, "("); i > 0 {
				l = l[:i]
			}
			return strings.TrimPrefix(l, "github.com/jsightapi/")
		}
	}
	return "unknown"
}
