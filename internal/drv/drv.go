// Package drv drives the real library through its public API and records what a user observes.
package drv

import (
	"fmt"
	"os"
	"path/filepath"
	"runtime"
	"strings"

	"github.com/jsightapi/jsight-api-go-library/core"
	"github.com/jsightapi/jsight-api-go-library/directive"
	"github.com/jsightapi/jsight-api-go-library/jerr"
	"github.com/jsightapi/jsight-api-go-library/kit"
	"github.com/jsightapi/jsight-schema-go-library/fs"
)

// Project is a set of files with a root.
type Project struct {
	Root  string            `json:"root"`
	Files map[string]string `json:"files"`
	// Dirs are directories to create (for "INCLUDE names a directory" scenarios).
	Dirs []string `json:"dirs,omitempty"`
}

func Single(content string) Project {
	return Project{Root: "root.jst", Files: map[string]string{"root.jst": content}}
}

// Options of a run.
type Options struct {
	Banned    []string `json:"banned,omitempty"` // directive keywords
	FixedSeed bool     `json:"fixed_seed,omitempty"`
}

func (o Options) core() []core.Option {
	var oo []core.Option
	if len(o.Banned) > 0 {
		var dd []directive.Enumeration
		for _, b := range o.Banned {
			dd = append(dd, EnumOf(b))
		}
		oo = append(oo, core.WithBannedDirectives(dd...))
	}
	if o.FixedSeed {
		oo = append(oo, core.WithFixedSeedForRegex())
	}
	return oo
}

// EnumOf maps a keyword (or "HTTP-response-code") to the library's enumeration value.
func EnumOf(kw string) directive.Enumeration {
	for i := directive.Jsight; i <= directive.Tags; i++ {
		if i.String() == kw {
			return i
		}
	}
	panic("unknown directive keyword " + kw)
}

// Outcome is everything observable from one run.
type Outcome struct {
	Kind string `json:"kind"` // ok | err | panic | sererr
	JSON string `json:"json,omitempty"`
	// Indent is the indented form.
	Indent string `json:"-"`
	Title  string `json:"title,omitempty"`

	Msg     string `json:"msg,omitempty"`
	Index   int    `json:"index,omitempty"`
	Line    int    `json:"line,omitempty"`
	Quote   string `json:"quote,omitempty"`
	ErrText string `json:"err_text,omitempty"`
	File    string `json:"file,omitempty"` // file the error is located in (verif hook)
	FileLen int    `json:"file_len,omitempty"`

	// LibFault: a Go runtime fault recovered inside the schema library during this run (first frame).
	LibFault string `json:"lib_fault,omitempty"`

	Panic string `json:"panic,omitempty"`
	Site  string `json:"site,omitempty"` // top repo frame of the panic
	Stack string `json:"-"`
}

func (o Outcome) OK() bool       { return o.Kind == "ok" }
func (o Outcome) Rejected() bool { return o.Kind == "err" }
func (o Outcome) Crashed() bool  { return o.Kind == "panic" }

// Verdict is a short string for comparison of acceptance.
func (o Outcome) Verdict() string { return o.Kind }

func (o Outcome) Short() string {
	switch o.Kind {
	case "ok":
		return "ok"
	case "err":
		return fmt.Sprintf("err[%d,L%d] %s", o.Index, o.Line, o.Msg)
	case "panic":
		return "PANIC " + o.Panic + " @" + o.Site
	}
	return o.Kind + " " + o.Msg
}

// resetFault / takeFault are set by the overlay build (fault_overlay.go): runtime faults the
// schema library recovered from during the last run, attributed to their first frame.
var (
	resetFault = func() {}
	takeFault  = func() string { return "" }
)

// FileNameOf is set by the verif-tagged build (hooks_verif.go) to read the located file name.
var FileNameOf func(*jerr.JApiError) string

// FileLenOf likewise returns the length of the located file (-1 when unknown).
var FileLenOf func(*jerr.JApiError) int

func finish(j kit.JApi, full bool) (out Outcome) {
	defer func() {
		if r := recover(); r != nil {
			out = Outcome{Kind: "panic", Panic: fmt.Sprint(r)}
			out.Stack = stack()
			out.Site = repoFrame(out.Stack)
		}
	}()
	resetFault()
	defer func() { out.LibFault = takeFault() }()
	je := j.ValidateJAPI()
	if je != nil {
		out.Kind = "err"
		out.Msg = je.Msg
		out.Index = int(je.Index())
		out.Line = int(je.Line())
		out.Quote = je.Quote()
		out.ErrText = je.Error()
		if FileNameOf != nil {
			out.File = FileNameOf(je)
		}
		if FileLenOf != nil {
			out.FileLen = FileLenOf(je)
		}
		return out
	}
	b, err := j.ToJson()
	if err != nil {
		return Outcome{Kind: "sererr", Msg: err.Error()}
	}
	out.Kind = "ok"
	out.JSON = string(b)
	if full {
		bi, err := j.ToJsonIndent()
		if err != nil {
			return Outcome{Kind: "sererr", Msg: "indent: " + err.Error()}
		}
		out.Indent = string(bi)
		out.Title = j.Title()
	}
	return out
}

// RunMem runs a single in-memory file (INCLUDE resolves relative to the process directory).
func RunMem(name, content string, opt Options) Outcome {
	return runMem(name, content, opt, false)
}

func RunMemFull(name, content string, opt Options) Outcome {
	return runMem(name, content, opt, true)
}

func runMem(name, content string, opt Options, full bool) (out Outcome) {
	defer func() {
		if r := recover(); r != nil {
			out = Outcome{Kind: "panic", Panic: fmt.Sprint(r)}
			out.Stack = stack()
			out.Site = repoFrame(out.Stack)
		}
	}()
	j := kit.NewJApiFromFile(fs.NewFile(name, []byte(content)), opt.core()...)
	return finish(j, full)
}

// Dir is a scratch directory in which multi-file projects are materialised.
type Dir struct {
	Path string
	n    int
}

func NewDir(base string) *Dir {
	d, err := os.MkdirTemp(base, "proj-")
	if err != nil {
		panic(err)
	}
	return &Dir{Path: d}
}

func (d *Dir) Close() { os.RemoveAll(d.Path) }

// Run materialises the project in a fresh sub-directory and runs it from its root file by path.
func (d *Dir) Run(p Project, opt Options, full bool) (out Outcome, root string) {
	d.n++
	sub := filepath.Join(d.Path, fmt.Sprintf("w%d", d.n%4))
	os.RemoveAll(sub)
	if err := os.MkdirAll(sub, 0o755); err != nil {
		panic(err)
	}
	for _, dd := range p.Dirs {
		os.MkdirAll(filepath.Join(sub, dd), 0o755)
	}
	for name, content := range p.Files {
		fp := filepath.Join(sub, name)
		if strings.Contains(name, "/") {
			os.MkdirAll(filepath.Dir(fp), 0o755)
		}
		if err := os.WriteFile(fp, []byte(content), 0o644); err != nil {
			panic(err)
		}
	}
	root = filepath.Join(sub, p.Root)
	defer func() {
		if r := recover(); r != nil {
			out = Outcome{Kind: "panic", Panic: fmt.Sprint(r)}
			out.Stack = stack()
			out.Site = repoFrame(out.Stack)
		}
	}()
	j, err := kit.NewJapi(root, opt.core()...)
	if err != nil {
		return Outcome{Kind: "err", Msg: "read: " + err.Error(), ErrText: err.Error()}, root
	}
	return finish(j, full), root
}

// RunPath runs the project whose root file is at path (files must exist already).
func RunPath(path string, opt Options) (out Outcome) {
	defer func() {
		if r := recover(); r != nil {
			out = Outcome{Kind: "panic", Panic: fmt.Sprint(r)}
			out.Stack = stack()
			out.Site = repoFrame(out.Stack)
		}
	}()
	j, err := kit.NewJapi(path, opt.core()...)
	if err != nil {
		return Outcome{Kind: "err", Msg: "read: " + err.Error(), ErrText: err.Error()}
	}
	return finish(j, false)
}

// Run runs a project: in memory when it has a single file and needs no directory.
func Run(d *Dir, p Project, opt Options, full bool) Outcome {
	if len(p.Files) == 1 && len(p.Dirs) == 0 && d == nil {
		return runMem(p.Root, p.Files[p.Root], opt, full)
	}
	o, _ := d.Run(p, opt, full)
	return o
}

func stack() string {
	buf := make([]byte, 16384)
	n := runtime.Stack(buf, false)
	return string(buf[:n])
}

// repoFrame returns the first frame inside the library under test after the panic frames.
func repoFrame(st string) string {
	lines := strings.Split(st, "\n")
	seenPanic := false
	for _, l := range lines {
		if strings.HasPrefix(l, "panic(") {
			seenPanic = true
			continue
		}
		if !seenPanic {
			continue
		}
		if strings.HasPrefix(l, "github.com/jsightapi/") {
			f := l
			if i := strings.LastIndex(f, "("); i > 0 {
				f = f[:i]
			}
			f = strings.TrimPrefix(f, "github.com/jsightapi/jsight-api-go-library/")
			return f
		}
	}
	return ""
}

// RunFileTwice compiles ONE file object twice (a caller may keep a file and compile it again) and
// reports both outcomes and whether the file's bytes are still what was put in.
func RunFileTwice(name, content string, opt Options) (first, second Outcome, inputIntact bool) {
	buf := []byte(content)
	f := fs.NewFile(name, buf)
	run := func() (out Outcome) {
		defer func() {
			if r := recover(); r != nil {
				out = Outcome{Kind: "panic", Panic: fmt.Sprint(r)}
				out.Stack = stack()
				out.Site = repoFrame(out.Stack)
			}
		}()
		return finish(kit.NewJApiFromFile(f, opt.core()...), false)
	}
	first = run()
	second = run()
	return first, second, string(buf) == content && string(f.Content()) == content
}
