package main

import (
	"crypto/sha256"
	"encoding/hex"
	"fmt"
	"os"
	"path/filepath"
	"runtime/debug"
	"strconv"

	_ "verif/internal/checks"
	"verif/internal/fw"
)

func usage() {
	fmt.Fprintln(os.Stderr, "usage: vcheck <ID> [quick|thorough] | vcheck replay <file> | vcheck list")
	os.Exit(2)
}

func main() {
	debug.SetGCPercent(600)
	debug.SetMaxStack(96 << 20) // runaway recursion must die in milliseconds, not after 1 GB
	if len(os.Args) < 2 {
		usage()
	}
	verifDir := os.Getenv("VERIF_DIR")
	if verifDir == "" {
		wd, _ := os.Getwd()
		verifDir = wd
	}
	verifDir, _ = filepath.Abs(verifDir)
	switch os.Args[1] {
	case "list":
		for _, id := range fw.IDs() {
			fmt.Println(id)
		}
	case "worker":
		a := os.Args[2:]
		if len(a) != 9 {
			usage()
		}
		seed, _ := strconv.ParseInt(a[2], 10, 64)
		shard, _ := strconv.Atoi(a[3])
		shards, _ := strconv.Atoi(a[4])
		from, _ := strconv.ParseInt(a[5], 10, 64)
		dl, _ := strconv.ParseInt(a[6], 10, 64)
		os.Exit(fw.RunWorker(a[0], a[1], seed, shard, shards, from, dl, a[7], a[8]))
	case "racepass":
		if fw.RacePass == nil {
			fmt.Println("racepass not available in this build")
			os.Exit(2)
		}
		fw.RacePass()
	case "solo":
		if fw.Solo == nil || len(os.Args) < 3 {
			fmt.Println("solo not available in this build")
			os.Exit(2)
		}
		h := sha256.Sum256([]byte(fw.Solo(os.Args[2])))
		fmt.Println(hex.EncodeToString(h[:]))
	case "debug":
		if len(os.Args) < 3 || fw.DebugCmds[os.Args[2]] == nil {
			fmt.Println("debug commands:", len(fw.DebugCmds))
			os.Exit(2)
		}
		fw.DebugCmds[os.Args[2]](os.Args[3:])
	case "replay":
		if len(os.Args) < 3 {
			usage()
		}
		os.Exit(fw.Replay(os.Args[2]))
	default:
		id := os.Args[1]
		tier := os.Getenv("VERIF_TIER")
		if len(os.Args) > 2 {
			tier = os.Args[2]
		}
		if tier == "" {
			tier = "quick"
		}
		var seed int64
		if v := os.Getenv("VERIF_SEED"); v != "" {
			seed, _ = strconv.ParseInt(v, 10, 64)
		}
		os.Exit(fw.Main(id, tier, seed, verifDir))
	}
}
