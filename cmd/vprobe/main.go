package main

import (
	"fmt"
	"os"
	"runtime/debug"

	"github.com/jsightapi/jsight-api-go-library/scanner"
	"github.com/jsightapi/jsight-schema-go-library/fs"
)

func main() {
	defer func() {
		if r := recover(); r != nil {
			fmt.Println("PANIC", r)
			fmt.Println(string(debug.Stack()))
		}
	}()
	s := scanner.NewJApiScanner(fs.NewFile("x", []byte(os.Args[1])))
	for {
		l, je := s.Next()
		if je != nil {
			fmt.Println("ERR", je.Msg, je.Index())
			return
		}
		if l == nil {
			fmt.Println("END")
			return
		}
		fmt.Println(l.String())
	}
}
