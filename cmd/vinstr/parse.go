package main

import (
	"fmt"
	"go/ast"
	"go/parser"
	"go/token"
)

func parserParseExpr(src string) (ast.Expr, error) { return parser.ParseExpr(src) }

func parserParseFuncDecl(src string) (*ast.FuncDecl, error) {
	f, err := parser.ParseFile(token.NewFileSet(), "x.go", "package x\n"+src, 0)
	if err != nil {
		return nil, err
	}
	for _, d := range f.Decls {
		if fd, ok := d.(*ast.FuncDecl); ok {
			// strip positions so that the printer lays it out freshly
			return fd, nil
		}
	}
	return nil, fmt.Errorf("no func")
}
