// vinstr reads the library's packages from /repo's current working tree with full type
// information and writes instrumented copies plus a `go build -overlay` file:
//   - every `for k, v := range M` over a map becomes an iteration over vdet.Order(M, site);
//   - (mode sched) import "sync" becomes the scheduler-aware vsync shim, every statement touching
//     the guarded fields of a mutex-bearing struct or a mutable package-level variable is preceded
//     by vsync.Access, and every package gets VerifResetGlobals().
// usage: vinstr <repo dir> <out dir> <shim dir> <mode: det|sched> [extra overlay json to merge]
package main

import (
	"bytes"
	"encoding/json"
	"fmt"
	"go/ast"
	"go/format"
	"go/token"
	"go/types"
	"os"
	"path/filepath"
	"sort"
	"strings"

	"golang.org/x/tools/go/ast/astutil"
	"golang.org/x/tools/go/packages"
)

const modPath = "github.com/jsightapi/jsight-api-go-library"

func fail(f string, a ...interface{}) {
	fmt.Printf("INSTRUMENTATION-ERROR: "+f+"\n", a...)
	os.Exit(2)
}

func main() {
	if len(os.Args) < 5 {
		fail("usage")
	}
	repo, out, shim, mode := os.Args[1], os.Args[2], os.Args[3], os.Args[4]
	os.MkdirAll(out, 0o755)
	cfg := &packages.Config{Mode: packages.NeedName | packages.NeedFiles | packages.NeedCompiledGoFiles | packages.NeedSyntax | packages.NeedTypes | packages.NeedTypesInfo | packages.NeedImports | packages.NeedDeps,
		Dir: repo, BuildFlags: []string{"-tags", "verif"}}
	pkgs, err := packages.Load(cfg, "./core", "./catalog", "./directive", "./scanner", "./jerr", "./kit", "./notation")
	if err != nil {
		fail("load: %v", err)
	}
	overlay := map[string]string{}
	if len(os.Args) > 5 {
		if b, err := os.ReadFile(os.Args[5]); err == nil {
			var o struct{ Replace map[string]string }
			json.Unmarshal(b, &o)
			for k, v := range o.Replace {
				overlay[k] = v
			}
		}
	}
	// virtual shim packages inside the library's import space
	for _, sp := range []string{"vdet", "vsync"} {
		src := filepath.Join(shim, sp, sp+".go.txt")
		if _, err := os.Stat(src); err == nil {
			overlay[filepath.Join(repo, "verifshim", sp, sp+".go")] = src
		}
	}
	sites := 0
	report := map[string]interface{}{}
	var rangeSites []string
	scs := map[*packages.Package]*schedInfo{}
	if mode == "sched" {
		// first pass over all packages: which fields are ever written through a pointer
		for _, p := range pkgs {
			if len(p.Errors) > 0 {
				fail("package %s: %v", p.PkgPath, p.Errors)
			}
			scs[p] = analyseSched(p)
		}
	}
	for _, p := range pkgs {
		if len(p.Errors) > 0 {
			fail("package %s: %v", p.PkgPath, p.Errors)
		}
		sc := scs[p]
		for i, f := range p.Syntax {
			path := p.CompiledGoFiles[i]
			changed := false
			// map ranges
			astutil.Apply(f, func(c *astutil.Cursor) bool {
				rs, ok := c.Node().(*ast.RangeStmt)
				if !ok {
					return true
				}
				t := p.TypesInfo.TypeOf(rs.X)
				if t == nil {
					return true
				}
				if _, isMap := t.Underlying().(*types.Map); !isMap {
					return true
				}
				if !pure(rs.X) {
					fail("%s: map range over an expression with possible side effects", p.Fset.Position(rs.Pos()))
				}
				pos := p.Fset.Position(rs.Pos())
				site := fmt.Sprintf("%s:%d", filepath.Base(pos.Filename), pos.Line)
				rangeSites = append(rangeSites, site+" range "+exprString(p.Fset, rs.X))
				rewriteRange(rs, site, sites)
				sites++
				changed = true
				return true
			}, nil)
			if changed {
				astutil.AddImport(p.Fset, f, modPath+"/verifshim/vdet")
			}
			if sc != nil {
				if instrumentSched(p, f, sc) {
					changed = true
				}
			}
			if !changed {
				continue
			}
			var buf bytes.Buffer
			if err := format.Node(&buf, p.Fset, f); err != nil {
				fail("print %s: %v", path, err)
			}
			op := filepath.Join(out, strings.ReplaceAll(strings.TrimPrefix(path, repo+"/"), "/", "__"))
			os.WriteFile(op, buf.Bytes(), 0o644)
			overlay[path] = op
		}
		if sc != nil {
			// VerifResetGlobals for the package
			src := sc.resetSource(p)
			op := filepath.Join(out, strings.ReplaceAll(strings.TrimPrefix(p.PkgPath, modPath+"/"), "/", "__")+"__verif_reset.go")
			os.WriteFile(op, []byte(src), 0o644)
			dir := filepath.Dir(p.CompiledGoFiles[0])
			overlay[filepath.Join(dir, "verif_reset_gen.go")] = op
			report[p.PkgPath] = sc.summary()
		}
	}
	sort.Strings(rangeSites)
	report["map_range_sites"] = rangeSites
	b, _ := json.MarshalIndent(map[string]interface{}{"Replace": overlay}, "", " ")
	os.WriteFile(filepath.Join(out, "overlay.json"), b, 0o644)
	rb, _ := json.MarshalIndent(report, "", " ")
	os.WriteFile(filepath.Join(out, "report.json"), rb, 0o644)
	fmt.Printf("vinstr: %d map-range sites, %d files in overlay\n", sites, len(overlay))
}

func pure(e ast.Expr) bool {
	switch x := e.(type) {
	case *ast.Ident:
		return true
	case *ast.SelectorExpr:
		return pure(x.X)
	case *ast.ParenExpr:
		return pure(x.X)
	case *ast.StarExpr:
		return pure(x.X)
	}
	return false
}

func exprString(fset *token.FileSet, e ast.Expr) string {
	var b bytes.Buffer
	format.Node(&b, fset, e)
	return b.String()
}

// rewriteRange turns `for K, V := range M {B}` into
// `for _, vdetKeyN := range vdet.Order(M, site) { K := vdetKeyN; V := M[vdetKeyN]; B }`.
func rewriteRange(rs *ast.RangeStmt, site string, n int) {
	kn := ast.NewIdent(fmt.Sprintf("vdetKey%d", n))
	m := rs.X
	var pre []ast.Stmt
	tok := rs.Tok
	if tok == token.ILLEGAL {
		tok = token.DEFINE
	}
	if id, ok := rs.Key.(*ast.Ident); rs.Key != nil && !(ok && id.Name == "_") {
		pre = append(pre, &ast.AssignStmt{Lhs: []ast.Expr{rs.Key}, Tok: tok, Rhs: []ast.Expr{kn}})
	}
	if id, ok := rs.Value.(*ast.Ident); rs.Value != nil && !(ok && id.Name == "_") {
		pre = append(pre, &ast.AssignStmt{Lhs: []ast.Expr{rs.Value}, Tok: tok, Rhs: []ast.Expr{&ast.IndexExpr{X: m, Index: kn}}})
	}
	rs.Key = ast.NewIdent("_")
	rs.Value = kn
	rs.Tok = token.DEFINE
	rs.X = &ast.CallExpr{Fun: &ast.SelectorExpr{X: ast.NewIdent("vdet"), Sel: ast.NewIdent("Order")},
		Args: []ast.Expr{m, &ast.BasicLit{Kind: token.STRING, Value: fmt.Sprintf("%q", site)}}}
	rs.Body.List = append(pre, rs.Body.List...)
}
