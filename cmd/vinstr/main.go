// vinstr reads the library's packages from /repo's current working tree with full type
// information and writes instrumented copies plus a `go build -overlay` file:
//   - every `for k, v := range M` over a map becomes an iteration over vdet.Order(M, site);
//   - (mode sched) import "sync" becomes the scheduler-aware vsync shim, every statement touching
//     the guarded fields of a mutex-bearing struct or a mutable package-level variable is preceded
//     by vsync.Access, and every package gets VerifResetGlobals().
//
// usage: vinstr <repo dir> <out dir> <shim dir> <mode: det|sched> [extra overlay json to merge]
package main

import (
	"bytes"
	"encoding/json"
	"fmt"
	"go/ast"
	"go/format"
	"go/parser"
	"go/token"
	"go/types"
	"os"
	"path/filepath"
	"sort"
	"strings"

	"golang.org/x/tools/go/ast/astutil"
	"golang.org/x/tools/go/packages"
)

const modPath = "github.com/jsightapi/jsight-api-go-library"

func fail(f string, a ...interface{}) {
	fmt.Printf("INSTRUMENTATION-ERROR: "+f+"\n", a...)
	os.Exit(2)
}

func main() {
	if len(os.Args) < 5 {
		fail("usage")
	}
	repo, out, shim, mode := os.Args[1], os.Args[2], os.Args[3], os.Args[4]
	os.MkdirAll(out, 0o755)
	cfg := &packages.Config{Mode: packages.NeedName | packages.NeedFiles | packages.NeedCompiledGoFiles | packages.NeedSyntax | packages.NeedTypes | packages.NeedTypesInfo | packages.NeedImports | packages.NeedDeps,
		Dir: repo, BuildFlags: []string{"-tags", "verif"}}
	pkgs, err := packages.Load(cfg, "./core", "./catalog", "./directive", "./scanner", "./jerr", "./kit", "./notation")
	if err != nil {
		fail("load: %v", err)
	}
	overlay := map[string]string{}
	if len(os.Args) > 5 {
		if b, err := os.ReadFile(os.Args[5]); err == nil {
			var o struct{ Replace map[string]string }
			json.Unmarshal(b, &o)
			for k, v := range o.Replace {
				overlay[k] = v
			}
		}
	}
	// virtual shim packages inside the library's import space
	for _, sp := range []string{"vdet", "vsync", "vio"} {
		src := filepath.Join(shim, sp, sp+".go.txt")
		if _, err := os.Stat(src); err == nil {
			overlay[filepath.Join(repo, "verifshim", sp, sp+".go")] = src
		}
	}
	sites := 0
	ioFiles := 0
	report := map[string]interface{}{}
	var rangeSites []string
	scs := map[*packages.Package]*schedInfo{}
	if mode == "sched" {
		// first pass over all packages: which fields are ever written through a pointer
		for _, p := range pkgs {
			if len(p.Errors) > 0 {
				fail("package %s: %v", p.PkgPath, p.Errors)
			}
			scs[p] = analyseSched(p)
		}
	}
	for _, p := range pkgs {
		if len(p.Errors) > 0 {
			fail("package %s: %v", p.PkgPath, p.Errors)
		}
		sc := scs[p]
		for i, f := range p.Syntax {
			path := p.CompiledGoFiles[i]
			changed := false
			// map ranges
			astutil.Apply(f, func(c *astutil.Cursor) bool {
				rs, ok := c.Node().(*ast.RangeStmt)
				if !ok {
					return true
				}
				t := p.TypesInfo.TypeOf(rs.X)
				if t == nil {
					return true
				}
				if _, isMap := t.Underlying().(*types.Map); !isMap {
					return true
				}
				if !pure(rs.X) {
					fail("%s: map range over an expression with possible side effects", p.Fset.Position(rs.Pos()))
				}
				pos := p.Fset.Position(rs.Pos())
				site := fmt.Sprintf("%s:%d", filepath.Base(pos.Filename), pos.Line)
				rangeSites = append(rangeSites, site+" range "+exprString(p.Fset, rs.X))
				// a key type that is an interface does not satisfy `comparable` under the library's
				// language version (go 1.19): the reflective variant with a type assertion
				keyAssert := ""
				if mt, ok := t.Underlying().(*types.Map); ok && types.IsInterface(mt.Key()) {
					keyAssert = types.TypeString(mt.Key(), func(other *types.Package) string {
						if other == p.Types {
							return ""
						}
						return other.Name()
					})
				}
				rewriteRange(rs, site, sites, keyAssert)
				sites++
				changed = true
				return true
			}, nil)
			if changed {
				astutil.AddImport(p.Fset, f, modPath+"/verifshim/vdet")
			}
			if mode == "io" && rewriteIO(p, f) {
				changed = true
				ioFiles++
			}
			if sc != nil {
				if instrumentSched(p, f, sc) {
					changed = true
				}
			}
			if !changed {
				continue
			}
			var buf bytes.Buffer
			if err := format.Node(&buf, p.Fset, f); err != nil {
				fail("print %s: %v", path, err)
			}
			op := filepath.Join(out, strings.ReplaceAll(strings.TrimPrefix(path, repo+"/"), "/", "__"))
			os.WriteFile(op, buf.Bytes(), 0o644)
			overlay[path] = op
		}
		if sc != nil {
			// VerifResetGlobals for the package
			src := sc.resetSource(p)
			op := filepath.Join(out, strings.ReplaceAll(strings.TrimPrefix(p.PkgPath, modPath+"/"), "/", "__")+"__verif_reset.go")
			os.WriteFile(op, []byte(src), 0o644)
			dir := filepath.Dir(p.CompiledGoFiles[0])
			overlay[filepath.Join(dir, "verif_reset_gen.go")] = op
			report[p.PkgPath] = sc.summary()
		}
	}
	if mode == "sched" {
		// the pinned schema library's own synchronisation (two RWMutexes, two sync.Pools, one Once)
		// goes through the scheduler-aware shim too: its files that import "sync" are copied with
		// the import redirected (module cache untouched)
		depFiles := 0
		for _, p := range pkgs {
			var visit func(q *packages.Package)
			seen := map[string]bool{}
			visit = func(q *packages.Package) {
				if seen[q.PkgPath] {
					return
				}
				seen[q.PkgPath] = true
				if strings.HasPrefix(q.PkgPath, "github.com/jsightapi/jsight-schema-go-library") {
					for _, fn := range q.CompiledGoFiles {
						if _, done := overlay[fn]; done && !strings.Contains(overlay[fn], "panics") {
							continue
						}
						b, err := os.ReadFile(fn)
						if err != nil || !bytes.Contains(b, []byte("\"sync\"")) {
							continue
						}
						src := string(b)
						if prev, ok := overlay[fn]; ok { // a file already replaced by the fault overlay
							if pb, err := os.ReadFile(prev); err == nil {
								src = string(pb)
							}
						}
						src = strings.Replace(src, "\t\"sync\"\n", "\tsync \""+vsyncPath+"\"\n", 1)
						src = strings.Replace(src, "import \"sync\"\n", "import sync \""+vsyncPath+"\"\n", 1)
						op := filepath.Join(out, "dep__"+strings.ReplaceAll(strings.TrimPrefix(fn, "/"), "/", "__"))
						os.WriteFile(op, []byte(src), 0o644)
						overlay[fn] = op
						depFiles++
					}
				}
				for _, imp := range q.Imports {
					visit(imp)
				}
			}
			visit(p)
		}
		report["dependency_files_with_sync_redirected"] = depFiles
	}
	sort.Strings(rangeSites)
	report["map_range_sites"] = rangeSites
	report["files_with_file_system_calls_rewritten"] = ioFiles
	report["file_system_call_sites"] = ioSites
	if mode == "io" && ioFiles == 0 {
		fail("no file-system call found in the library's packages: the io shim would observe nothing")
	}
	b, _ := json.MarshalIndent(map[string]interface{}{"Replace": overlay}, "", " ")
	os.WriteFile(filepath.Join(out, "overlay.json"), b, 0o644)
	rb, _ := json.MarshalIndent(report, "", " ")
	os.WriteFile(filepath.Join(out, "report.json"), rb, 0o644)
	fmt.Printf("vinstr: %d map-range sites, %d files in overlay\n", sites, len(overlay))
}

func pure(e ast.Expr) bool {
	switch x := e.(type) {
	case *ast.Ident:
		return true
	case *ast.SelectorExpr:
		return pure(x.X)
	case *ast.ParenExpr:
		return pure(x.X)
	case *ast.StarExpr:
		return pure(x.X)
	}
	return false
}

func exprString(fset *token.FileSet, e ast.Expr) string {
	var b bytes.Buffer
	format.Node(&b, fset, e)
	return b.String()
}

// rewriteRange turns `for K, V := range M {B}` into
// `for _, vdetKeyN := range vdet.Order(M, site) { K := vdetKeyN; V := M[vdetKeyN]; B }`.
func rewriteRange(rs *ast.RangeStmt, site string, n int, keyAssert string) {
	kn := ast.NewIdent(fmt.Sprintf("vdetKey%d", n))
	m := rs.X
	if keyAssert != "" {
		// for _, vdetAnyN := range vdet.OrderAny(M, site) { vdetKeyN := vdetAnyN.(KeyType); K := vdetKeyN; V := M[vdetKeyN]; B }
		an := ast.NewIdent(fmt.Sprintf("vdetAny%d", n))
		kt, err := parser.ParseExpr(keyAssert)
		if err != nil {
			fail("%s: cannot spell the key type %s", site, keyAssert)
		}
		pre := []ast.Stmt{&ast.AssignStmt{Lhs: []ast.Expr{kn}, Tok: token.DEFINE, Rhs: []ast.Expr{&ast.TypeAssertExpr{X: an, Type: kt}}}}
		tok := rs.Tok
		if tok == token.ILLEGAL {
			tok = token.DEFINE
		}
		used := false
		if id, ok := rs.Key.(*ast.Ident); rs.Key != nil && !(ok && id.Name == "_") {
			pre = append(pre, &ast.AssignStmt{Lhs: []ast.Expr{rs.Key}, Tok: tok, Rhs: []ast.Expr{kn}})
			used = true
		}
		if id, ok := rs.Value.(*ast.Ident); rs.Value != nil && !(ok && id.Name == "_") {
			pre = append(pre, &ast.AssignStmt{Lhs: []ast.Expr{rs.Value}, Tok: tok, Rhs: []ast.Expr{&ast.IndexExpr{X: m, Index: kn}}})
			used = true
		}
		if !used {
			pre = append(pre, &ast.AssignStmt{Lhs: []ast.Expr{ast.NewIdent("_")}, Tok: token.ASSIGN, Rhs: []ast.Expr{kn}})
		}
		rs.Key = ast.NewIdent("_")
		rs.Value = an
		rs.Tok = token.DEFINE
		rs.X = &ast.CallExpr{Fun: &ast.SelectorExpr{X: ast.NewIdent("vdet"), Sel: ast.NewIdent("OrderAny")},
			Args: []ast.Expr{m, &ast.BasicLit{Kind: token.STRING, Value: fmt.Sprintf("%q", site)}}}
		rs.Body.List = append(pre, rs.Body.List...)
		return
	}
	var pre []ast.Stmt
	tok := rs.Tok
	if tok == token.ILLEGAL {
		tok = token.DEFINE
	}
	if id, ok := rs.Key.(*ast.Ident); rs.Key != nil && !(ok && id.Name == "_") {
		pre = append(pre, &ast.AssignStmt{Lhs: []ast.Expr{rs.Key}, Tok: tok, Rhs: []ast.Expr{kn}})
	}
	if id, ok := rs.Value.(*ast.Ident); rs.Value != nil && !(ok && id.Name == "_") {
		pre = append(pre, &ast.AssignStmt{Lhs: []ast.Expr{rs.Value}, Tok: tok, Rhs: []ast.Expr{&ast.IndexExpr{X: m, Index: kn}}})
	}
	rs.Key = ast.NewIdent("_")
	rs.Value = kn
	rs.Tok = token.DEFINE
	rs.X = &ast.CallExpr{Fun: &ast.SelectorExpr{X: ast.NewIdent("vdet"), Sel: ast.NewIdent("Order")},
		Args: []ast.Expr{m, &ast.BasicLit{Kind: token.STRING, Value: fmt.Sprintf("%q", site)}}}
	rs.Body.List = append(pre, rs.Body.List...)
}

var ioSites []string

// rewriteIO routes os.Stat / os.Lstat / os.ReadFile / os.Open / os.ReadDir (and ioutil.ReadFile)
// through the vio shim. Any other use of a file-opening function of package os is an error: the
// shim must see every access.
func rewriteIO(p *packages.Package, f *ast.File) bool {
	changed := false
	supported := map[string]bool{"Stat": true, "Lstat": true, "ReadFile": true, "Open": true, "ReadDir": true}
	unsupported := map[string]bool{"OpenFile": true, "Create": true, "WriteFile": true, "Readlink": true, "DirFS": true}
	ast.Inspect(f, func(n ast.Node) bool {
		sel, ok := n.(*ast.SelectorExpr)
		if !ok {
			return true
		}
		id, ok := sel.X.(*ast.Ident)
		if !ok {
			return true
		}
		pn, ok := p.TypesInfo.Uses[id].(*types.PkgName)
		if !ok {
			return true
		}
		path := pn.Imported().Path()
		if path != "os" && path != "io/ioutil" {
			return true
		}
		pos := p.Fset.Position(sel.Pos())
		site := fmt.Sprintf("%s:%d %s.%s", filepath.Base(pos.Filename), pos.Line, path, sel.Sel.Name)
		switch {
		case path == "io/ioutil" && sel.Sel.Name == "ReadFile", path == "os" && supported[sel.Sel.Name]:
			id.Name = "vio"
			ioSites = append(ioSites, site)
			changed = true
		case path == "os" && unsupported[sel.Sel.Name], path == "io/ioutil" && sel.Sel.Name != "ReadFile" && sel.Sel.Name != "Discard" && sel.Sel.Name != "NopCloser" && sel.Sel.Name != "ReadAll":
			fail("%s: a file-system call the io shim does not route", site)
		}
		return true
	})
	if changed {
		astutil.AddNamedImport(p.Fset, f, "vio", modPath+"/verifshim/vio")
		// the os import may have become unused
		if !astutil.UsesImport(f, "os") {
			astutil.DeleteImport(p.Fset, f, "os")
		}
		if !astutil.UsesImport(f, "io/ioutil") {
			astutil.DeleteImport(p.Fset, f, "io/ioutil")
		}
	}
	return changed
}
