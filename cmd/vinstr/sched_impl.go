package main

import (
	"bytes"
	"fmt"
	"go/ast"
	"go/format"
	"go/token"
	"go/types"
	"path/filepath"
	"sort"
	"strconv"
	"strings"

	"golang.org/x/tools/go/ast/astutil"
	"golang.org/x/tools/go/packages"
)

const vsyncPath = modPath + "/verifshim/vsync"

type schedImpl struct {
	guarded   map[*types.Named]string // struct type with a mutex field -> name of the mutex field
	mutable   map[*types.Var]bool     // package-level variables written after initialisation
	immutable []string
	syncVars  []*types.Var
	resetFns  []string
	accesses  int
	syncFiles int
	// heapWrites: also instrument writes to fields reached through pointers (off for the scanner
	// package, whose objects are private to one parse and written once per byte)
	heapWrites bool
}

func isSyncType(t types.Type, names ...string) bool {
	n, ok := t.(*types.Named)
	if !ok || n.Obj().Pkg() == nil || n.Obj().Pkg().Path() != "sync" {
		return false
	}
	for _, s := range names {
		if n.Obj().Name() == s {
			return true
		}
	}
	return len(names) == 0
}

func analyse(p *packages.Package) *schedImpl {
	s := &schedImpl{guarded: map[*types.Named]string{}, mutable: map[*types.Var]bool{}, heapWrites: p.Name != "scanner"}
	scope := p.Types.Scope()
	for _, name := range scope.Names() {
		obj := scope.Lookup(name)
		switch o := obj.(type) {
		case *types.TypeName:
			named, ok := o.Type().(*types.Named)
			if !ok {
				continue
			}
			st, ok := named.Underlying().(*types.Struct)
			if !ok {
				continue
			}
			for i := 0; i < st.NumFields(); i++ {
				if isSyncType(st.Field(i).Type(), "Mutex", "RWMutex") {
					s.guarded[named] = st.Field(i).Name()
				}
			}
		case *types.Var:
			if name == "_" {
				continue
			}
			if isSyncType(o.Type()) {
				s.syncVars = append(s.syncVars, o)
			}
		}
	}
	// which package-level variables are written after initialisation?
	rootVar := func(e ast.Expr) *types.Var {
		for {
			switch x := e.(type) {
			case *ast.Ident:
				if v, ok := p.TypesInfo.Uses[x].(*types.Var); ok && v.Parent() == scope {
					return v
				}
				return nil
			case *ast.IndexExpr:
				e = x.X
			case *ast.SelectorExpr:
				if id, ok := x.X.(*ast.Ident); ok {
					if _, isPkg := p.TypesInfo.Uses[id].(*types.PkgName); isPkg {
						return nil
					}
				}
				e = x.X
			case *ast.StarExpr:
				e = x.X
			case *ast.ParenExpr:
				e = x.X
			default:
				return nil
			}
		}
	}
	for _, f := range p.Syntax {
		ast.Inspect(f, func(n ast.Node) bool {
			switch x := n.(type) {
			case *ast.AssignStmt:
				for _, l := range x.Lhs {
					if v := rootVar(l); v != nil && !isSyncType(v.Type()) {
						s.mutable[v] = true
					}
				}
			case *ast.IncDecStmt:
				if v := rootVar(x.X); v != nil {
					s.mutable[v] = true
				}
			case *ast.UnaryExpr:
				if x.Op == token.AND {
					if v := rootVar(x.X); v != nil && !isSyncType(v.Type()) {
						// address taken: treated as possibly written, unless it is only `&T{}` style literal
						if _, lit := x.X.(*ast.CompositeLit); !lit {
							s.mutable[v] = true
						}
					}
				}
			case *ast.CallExpr:
				if id, ok := x.Fun.(*ast.Ident); ok && id.Name == "delete" && len(x.Args) > 0 {
					if v := rootVar(x.Args[0]); v != nil {
						s.mutable[v] = true
					}
				}
			}
			return true
		})
	}
	for _, name := range scope.Names() {
		if v, ok := scope.Lookup(name).(*types.Var); ok && name != "_" && !s.mutable[v] && !isSyncType(v.Type()) {
			s.immutable = append(s.immutable, name)
		}
	}
	return s
}

// guardedSel reports whether sel is a selection of a guarded (non-mutex) field; returns the
// receiver expression.
func (s *schedImpl) guardedSel(p *packages.Package, sel *ast.SelectorExpr) (ast.Expr, bool) {
	selection := p.TypesInfo.Selections[sel]
	if selection == nil || selection.Kind() != types.FieldVal {
		return nil, false
	}
	t := selection.Recv()
	if ptr, ok := t.(*types.Pointer); ok {
		t = ptr.Elem()
	}
	named, ok := t.(*types.Named)
	if !ok {
		return nil, false
	}
	mf, ok := s.guarded[named]
	if !ok || sel.Sel.Name == mf {
		return nil, false
	}
	if !pure(sel.X) {
		return nil, false
	}
	return sel.X, true
}

type hit struct {
	key   string
	expr  string // source of the identity expression
	write bool
	touch bool // monitor-only access (no scheduling point): a struct field outside the guarded set
}

// writtenFields are the struct fields (of any package) that some statement assigns through a
// pointer; reads of these fields are reported to the race monitor, too.
var writtenFields = map[*types.Var]bool{}

// collectWrites records the fields this package writes through pointers.
func (s *schedImpl) collectWrites(p *packages.Package) {
	for _, f := range p.Syntax {
		ast.Inspect(f, func(n ast.Node) bool {
			var targets []ast.Expr
			switch x := n.(type) {
			case *ast.AssignStmt:
				if x.Tok != token.DEFINE {
					targets = x.Lhs
				}
			case *ast.IncDecStmt:
				targets = []ast.Expr{x.X}
			}
			for _, l := range targets {
				if v := s.heapWriteField(p, l); v != nil {
					writtenFields[v] = true
				}
			}
			return true
		})
	}
}

// heapWriteField returns the field object written by an assignment target, if it is a field
// reached through a pointer.
func (s *schedImpl) heapWriteField(p *packages.Package, e ast.Expr) *types.Var {
	for {
		switch x := e.(type) {
		case *ast.ParenExpr:
			e = x.X
			continue
		case *ast.IndexExpr:
			e = x.X
			continue
		case *ast.SelectorExpr:
			sel := p.TypesInfo.Selections[x]
			if sel == nil || sel.Kind() != types.FieldVal || !throughPointer(p, x.X) {
				return nil
			}
			v, _ := sel.Obj().(*types.Var)
			return v
		}
		return nil
	}
}

// stmtHits collects the guarded objects / mutable globals a simple statement (or the header of a
// compound statement) touches.
func (s *schedImpl) stmtHits(p *packages.Package, nodes []ast.Node, lhs []ast.Expr) []hit {
	found := map[string]*hit{}
	var order []string
	lhsRoots := map[ast.Node]bool{}
	for _, l := range lhs {
		ast.Inspect(l, func(n ast.Node) bool {
			if n != nil {
				lhsRoots[n] = true
			}
			return true
		})
	}
	scope := p.Types.Scope()
	add := func(key, expr string, w bool) {
		h := found[key]
		if h == nil {
			h = &hit{key: key, expr: expr}
			found[key] = h
			order = append(order, key)
		}
		if w {
			h.write = true
		}
	}
	addTouch := func(key, expr string, w bool) {
		add(key, expr, w)
		found[key].touch = true
	}
	for _, root := range nodes {
		if root == nil {
			continue
		}
		ast.Inspect(root, func(n ast.Node) bool {
			switch x := n.(type) {
			case *ast.FuncLit:
				return false // the closure's body is instrumented on its own
			case *ast.SelectorExpr:
				if recv, ok := s.guardedSel(p, x); ok {
					src := exprString(p.Fset, recv)
					id := "vsync.ID(" + src + ")"
					if t := p.TypesInfo.TypeOf(recv); t != nil {
						if _, isPtr := t.(*types.Pointer); !isPtr {
							id = "vsync.ID(&" + src + ")"
						}
					}
					add("obj:"+src, id, lhsRoots[x])
				} else if s.heapWrites {
					if sel := p.TypesInfo.Selections[x]; sel != nil && sel.Kind() == types.FieldVal {
						if v, _ := sel.Obj().(*types.Var); v != nil && writtenFields[v] && pure(x.X) && throughPointer(p, x.X) {
							src := exprString(p.Fset, x)
							addTouch("fld:"+src, "vsync.ID(&"+src+")", false)
						}
					}
				}
			case *ast.Ident:
				if v, ok := p.TypesInfo.Uses[x].(*types.Var); ok && v.Parent() == scope && s.mutable[v] {
					add("glob:"+v.Name(), fmt.Sprintf("vsync.GID(%q)", p.Name+"."+v.Name()), lhsRoots[x])
				}
			case *ast.CallExpr:
				if id, ok := x.Fun.(*ast.Ident); ok && (id.Name == "delete" || id.Name == "append") && len(x.Args) > 0 {
					if id.Name == "delete" {
						ast.Inspect(x.Args[0], func(m ast.Node) bool {
							if m != nil {
								lhsRoots[m] = true
							}
							return true
						})
					}
				}
			}
			return true
		})
	}
	// writes to a field reached through a pointer, to an element of such a field, or through a
	// pointer: any of them on an object two threads can reach is a candidate data race, whether or
	// not the struct carries a mutex (a "read-only" method that caches into its receiver)
	if s.heapWrites {
		for _, l := range lhs {
			if id, src, ok := s.heapWrite(p, l); ok {
				addTouch("fld:"+src, id, true)
			}
		}
	}
	var out []hit
	for _, k := range order {
		out = append(out, *found[k])
	}
	return out
}

// heapWrite classifies an assignment target; it returns the identity expression of the written
// location when that location is not a plain local variable.
func (s *schedImpl) heapWrite(p *packages.Package, e ast.Expr) (id, src string, ok bool) {
	for {
		pe, isParen := e.(*ast.ParenExpr)
		if !isParen {
			break
		}
		e = pe.X
	}
	switch x := e.(type) {
	case *ast.SelectorExpr:
		if _, guarded := s.guardedSel(p, x); guarded {
			return "", "", false // already an access of the guarded object
		}
		sel := p.TypesInfo.Selections[x]
		if sel == nil || sel.Kind() != types.FieldVal || !pure(x.X) || !throughPointer(p, x.X) {
			return "", "", false
		}
		src = exprString(p.Fset, x)
		return "vsync.ID(&" + src + ")", src, true
	case *ast.IndexExpr:
		// an element of a slice / map / array held in a field: the field is the location
		base, isSel := x.X.(*ast.SelectorExpr)
		if !isSel {
			return "", "", false
		}
		return s.heapWrite(p, base)
	case *ast.StarExpr:
		if !pure(x.X) {
			return "", "", false
		}
		src = exprString(p.Fset, x.X)
		return "vsync.ID(" + src + ")", "*" + src, true
	}
	return "", "", false
}

// throughPointer reports whether evaluating the selector base e dereferences a pointer somewhere
// (then the selected field lives on the heap or in someone else's frame).
func throughPointer(p *packages.Package, e ast.Expr) bool {
	for {
		if t := p.TypesInfo.TypeOf(e); t != nil {
			if _, isPtr := t.Underlying().(*types.Pointer); isPtr {
				return true
			}
		}
		switch x := e.(type) {
		case *ast.SelectorExpr:
			if id, ok := x.X.(*ast.Ident); ok {
				if _, isPkg := p.TypesInfo.Uses[id].(*types.PkgName); isPkg {
					return false // pkg.Var: a package-level variable, instrumented as such
				}
			}
			e = x.X
		case *ast.ParenExpr:
			e = x.X
		case *ast.StarExpr:
			return true
		default:
			return false
		}
	}
}

func (s *schedImpl) accessStmts(p *packages.Package, hits []hit, pos token.Pos) []ast.Stmt {
	var out []ast.Stmt
	position := p.Fset.Position(pos)
	site := fmt.Sprintf("%s:%d", filepath.Base(position.Filename), position.Line)
	for _, h := range hits {
		src := fmt.Sprintf("vsync.Access(%s, %v, %q)", h.expr, h.write, site)
		if h.touch {
			// the identity is computed under a guard: the hook stands in front of the statement, where
			// a short-circuit condition has not yet excluded a nil base
			src = fmt.Sprintf("vsync.TouchF(func() interface{} { return %s }, %v, %q)", strings.TrimSuffix(strings.TrimPrefix(h.expr, "vsync.ID("), ")"), h.write, site)
		}
		e, err := parseExpr(src)
		if err != nil {
			fail("cannot build access call %s: %v", src, err)
		}
		out = append(out, &ast.ExprStmt{X: e})
		s.accesses++
	}
	return out
}

func parseExpr(src string) (ast.Expr, error) {
	return parserParseExpr(src)
}

// instrument rewrites one file; returns whether it changed.
func (s *schedImpl) instrument(p *packages.Package, f *ast.File) bool {
	changed := false
	// 1. import "sync" -> the shim under the same name
	for _, imp := range f.Imports {
		if imp.Path.Value == `"sync"` {
			imp.Path.Value = strconv.Quote(vsyncPath)
			imp.Name = ast.NewIdent("sync")
			changed = true
			s.syncFiles++
		}
	}
	// 2. accesses: walk every block and case clause
	needImport := false
	var doList func(list []ast.Stmt) []ast.Stmt
	doList = func(list []ast.Stmt) []ast.Stmt {
		var out []ast.Stmt
		for _, st := range list {
			var hits []hit
			switch x := st.(type) {
			case *ast.AssignStmt:
				nodes := []ast.Node{}
				for _, e := range x.Lhs {
					nodes = append(nodes, e)
				}
				for _, e := range x.Rhs {
					nodes = append(nodes, e)
				}
				var lhs []ast.Expr
				if x.Tok != token.DEFINE {
					lhs = x.Lhs
				}
				hits = s.stmtHits(p, nodes, lhs)
			case *ast.IncDecStmt:
				hits = s.stmtHits(p, []ast.Node{x.X}, []ast.Expr{x.X})
			case *ast.ExprStmt:
				hits = s.stmtHits(p, []ast.Node{x.X}, nil)
			case *ast.ReturnStmt:
				var nodes []ast.Node
				for _, e := range x.Results {
					nodes = append(nodes, e)
				}
				hits = s.stmtHits(p, nodes, nil)
			case *ast.DeclStmt:
				hits = s.stmtHits(p, []ast.Node{x.Decl}, nil)
			// the hooks stand in front of the statement: expressions that may use variables the
			// statement's own init clause declares (condition, post, tag) are left to the hooks
			// inside the body when there is an init clause
			case *ast.IfStmt:
				if x.Init != nil {
					hits = s.stmtHits(p, []ast.Node{initRHS(x.Init)}, nil)
				} else {
					hits = s.stmtHits(p, []ast.Node{x.Cond}, nil)
				}
			case *ast.ForStmt:
				if x.Init != nil {
					hits = s.stmtHits(p, []ast.Node{initRHS(x.Init)}, nil)
				} else {
					hits = s.stmtHits(p, []ast.Node{x.Cond}, nil)
				}
			case *ast.RangeStmt:
				hits = s.stmtHits(p, []ast.Node{x.X}, nil)
			case *ast.SwitchStmt:
				if x.Init != nil {
					hits = s.stmtHits(p, []ast.Node{initRHS(x.Init)}, nil)
				} else {
					hits = s.stmtHits(p, []ast.Node{x.Tag}, nil)
				}
			case *ast.DeferStmt, *ast.GoStmt:
				// not instrumented (the deferred unlocks are the mutex's own scheduling points)
			}
			if len(hits) > 0 {
				out = append(out, s.accessStmts(p, hits, st.Pos())...)
				needImport = true
				changed = true
			}
			out = append(out, st)
		}
		return out
	}
	ast.Inspect(f, func(n ast.Node) bool {
		switch x := n.(type) {
		case *ast.BlockStmt:
			x.List = doList(x.List)
		case *ast.CaseClause:
			x.Body = doList(x.Body)
		case *ast.CommClause:
			x.Body = doList(x.Body)
		}
		return true
	})
	// loops whose body was instrumented: a `for cond` re-evaluates cond each round; the access in
	// front of the loop plus the accesses inside the body are what the explorer sees.
	if needImport {
		astutil.AddNamedImport(p.Fset, f, "vsync", vsyncPath)
	}
	// 3. reset functions for mutable globals with initialisers, emitted into the declaring file
	for _, d := range f.Decls {
		gd, ok := d.(*ast.GenDecl)
		if !ok || gd.Tok != token.VAR {
			continue
		}
		for _, spec := range gd.Specs {
			vs := spec.(*ast.ValueSpec)
			for i, name := range vs.Names {
				v, ok := p.TypesInfo.Defs[name].(*types.Var)
				if !ok || name.Name == "_" {
					continue
				}
				if !s.mutable[v] && !isSyncType(v.Type()) {
					continue
				}
				fn := "verifReset_" + name.Name
				var body string
				if i < len(vs.Values) && len(vs.Values) == len(vs.Names) {
					body = name.Name + " = " + exprString(p.Fset, vs.Values[i])
				} else {
					body = "vsync.Zero(&" + name.Name + ")"
					astutil.AddNamedImport(p.Fset, f, "vsync", vsyncPath)
				}
				decl, err := parserParseFuncDecl("func " + fn + "() { " + body + " }")
				if err != nil {
					fail("reset function for %s: %v", name.Name, err)
				}
				f.Decls = append(f.Decls, decl)
				s.resetFns = append(s.resetFns, fn)
				changed = true
			}
		}
	}
	return changed
}

func (s *schedImpl) resetSource(p *packages.Package) string {
	var b bytes.Buffer
	fmt.Fprintf(&b, "package %s\n\n// VerifResetGlobals restores every mutable package-level variable (generated).\nfunc VerifResetGlobals() {\n", p.Name)
	sort.Strings(s.resetFns)
	for _, fn := range s.resetFns {
		fmt.Fprintf(&b, "\t%s()\n", fn)
	}
	b.WriteString("}\n")
	src, err := format.Source(b.Bytes())
	if err != nil {
		fail("reset source: %v", err)
	}
	return string(src)
}

func (s *schedImpl) summary() interface{} {
	var g []string
	for n, f := range s.guarded {
		g = append(g, n.Obj().Name()+"."+f)
	}
	sort.Strings(g)
	var m []string
	for v := range s.mutable {
		m = append(m, v.Name())
	}
	sort.Strings(m)
	sort.Strings(s.immutable)
	return map[string]interface{}{"mutex_bearing_structs": g, "mutable_globals": m, "immutable_globals": strings.Join(s.immutable, " "), "access_calls_inserted": s.accesses, "files_with_sync_rewritten": s.syncFiles, "reset_functions": s.resetFns}
}

// initRHS returns the right-hand sides of an init clause (what is evaluated in the enclosing scope).
func initRHS(st ast.Stmt) ast.Node {
	if a, ok := st.(*ast.AssignStmt); ok {
		if len(a.Rhs) == 1 {
			return a.Rhs[0]
		}
		return &ast.CompositeLit{Elts: a.Rhs}
	}
	return nil
}
