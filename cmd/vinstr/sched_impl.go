package main

import (
	"go/ast"

	"golang.org/x/tools/go/packages"
)

type schedImpl struct{}

func analyse(p *packages.Package) *schedImpl                        { return &schedImpl{} }
func (s *schedImpl) instrument(p *packages.Package, f *ast.File) bool { return false }
func (s *schedImpl) resetSource(p *packages.Package) string {
	return "package " + p.Name + "\n\n// VerifResetGlobals restores the package-level state.\nfunc VerifResetGlobals() {}\n"
}
func (s *schedImpl) summary() interface{} { return nil }
