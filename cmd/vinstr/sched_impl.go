package main

import (
	"bytes"
	"fmt"
	"go/ast"
	"go/format"
	"go/token"
	"go/types"
	"path/filepath"
	"sort"
	"strconv"
	"strings"

	"golang.org/x/tools/go/ast/astutil"
	"golang.org/x/tools/go/packages"
)

const vsyncPath = modPath + "/verifshim/vsync"

type schedImpl struct {
	guarded   map[*types.Named]string // struct type with a mutex field -> name of the mutex field
	mutable   map[*types.Var]bool     // package-level variables written after initialisation
	immutable []string
	syncVars  []*types.Var
	resetFns  []string
	accesses  int
	syncFiles int
}

func isSyncType(t types.Type, names ...string) bool {
	n, ok := t.(*types.Named)
	if !ok || n.Obj().Pkg() == nil || n.Obj().Pkg().Path() != "sync" {
		return false
	}
	for _, s := range names {
		if n.Obj().Name() == s {
			return true
		}
	}
	return len(names) == 0
}

func analyse(p *packages.Package) *schedImpl {
	s := &schedImpl{guarded: map[*types.Named]string{}, mutable: map[*types.Var]bool{}}
	scope := p.Types.Scope()
	for _, name := range scope.Names() {
		obj := scope.Lookup(name)
		switch o := obj.(type) {
		case *types.TypeName:
			named, ok := o.Type().(*types.Named)
			if !ok {
				continue
			}
			st, ok := named.Underlying().(*types.Struct)
			if !ok {
				continue
			}
			for i := 0; i < st.NumFields(); i++ {
				if isSyncType(st.Field(i).Type(), "Mutex", "RWMutex") {
					s.guarded[named] = st.Field(i).Name()
				}
			}
		case *types.Var:
			if name == "_" {
				continue
			}
			if isSyncType(o.Type()) {
				s.syncVars = append(s.syncVars, o)
			}
		}
	}
	// which package-level variables are written after initialisation?
	rootVar := func(e ast.Expr) *types.Var {
		for {
			switch x := e.(type) {
			case *ast.Ident:
				if v, ok := p.TypesInfo.Uses[x].(*types.Var); ok && v.Parent() == scope {
					return v
				}
				return nil
			case *ast.IndexExpr:
				e = x.X
			case *ast.SelectorExpr:
				if id, ok := x.X.(*ast.Ident); ok {
					if _, isPkg := p.TypesInfo.Uses[id].(*types.PkgName); isPkg {
						return nil
					}
				}
				e = x.X
			case *ast.StarExpr:
				e = x.X
			case *ast.ParenExpr:
				e = x.X
			default:
				return nil
			}
		}
	}
	for _, f := range p.Syntax {
		ast.Inspect(f, func(n ast.Node) bool {
			switch x := n.(type) {
			case *ast.AssignStmt:
				for _, l := range x.Lhs {
					if v := rootVar(l); v != nil && !isSyncType(v.Type()) {
						s.mutable[v] = true
					}
				}
			case *ast.IncDecStmt:
				if v := rootVar(x.X); v != nil {
					s.mutable[v] = true
				}
			case *ast.UnaryExpr:
				if x.Op == token.AND {
					if v := rootVar(x.X); v != nil && !isSyncType(v.Type()) {
						// address taken: treated as possibly written, unless it is only `&T{}` style literal
						if _, lit := x.X.(*ast.CompositeLit); !lit {
							s.mutable[v] = true
						}
					}
				}
			case *ast.CallExpr:
				if id, ok := x.Fun.(*ast.Ident); ok && id.Name == "delete" && len(x.Args) > 0 {
					if v := rootVar(x.Args[0]); v != nil {
						s.mutable[v] = true
					}
				}
			}
			return true
		})
	}
	for _, name := range scope.Names() {
		if v, ok := scope.Lookup(name).(*types.Var); ok && name != "_" && !s.mutable[v] && !isSyncType(v.Type()) {
			s.immutable = append(s.immutable, name)
		}
	}
	return s
}

// guardedSel reports whether sel is a selection of a guarded (non-mutex) field; returns the
// receiver expression.
func (s *schedImpl) guardedSel(p *packages.Package, sel *ast.SelectorExpr) (ast.Expr, bool) {
	selection := p.TypesInfo.Selections[sel]
	if selection == nil || selection.Kind() != types.FieldVal {
		return nil, false
	}
	t := selection.Recv()
	if ptr, ok := t.(*types.Pointer); ok {
		t = ptr.Elem()
	}
	named, ok := t.(*types.Named)
	if !ok {
		return nil, false
	}
	mf, ok := s.guarded[named]
	if !ok || sel.Sel.Name == mf {
		return nil, false
	}
	if !pure(sel.X) {
		return nil, false
	}
	return sel.X, true
}

type hit struct {
	key   string
	expr  string // source of the identity expression
	write bool
}

// stmtHits collects the guarded objects / mutable globals a simple statement (or the header of a
// compound statement) touches.
func (s *schedImpl) stmtHits(p *packages.Package, nodes []ast.Node, lhs []ast.Expr) []hit {
	found := map[string]*hit{}
	var order []string
	lhsRoots := map[ast.Node]bool{}
	for _, l := range lhs {
		ast.Inspect(l, func(n ast.Node) bool {
			if n != nil {
				lhsRoots[n] = true
			}
			return true
		})
	}
	scope := p.Types.Scope()
	add := func(key, expr string, w bool) {
		h := found[key]
		if h == nil {
			h = &hit{key: key, expr: expr}
			found[key] = h
			order = append(order, key)
		}
		if w {
			h.write = true
		}
	}
	for _, root := range nodes {
		if root == nil {
			continue
		}
		ast.Inspect(root, func(n ast.Node) bool {
			switch x := n.(type) {
			case *ast.FuncLit:
				return false // the closure's body is instrumented on its own
			case *ast.SelectorExpr:
				if recv, ok := s.guardedSel(p, x); ok {
					src := exprString(p.Fset, recv)
					id := "vsync.ID(" + src + ")"
					if t := p.TypesInfo.TypeOf(recv); t != nil {
						if _, isPtr := t.(*types.Pointer); !isPtr {
							id = "vsync.ID(&" + src + ")"
						}
					}
					add("obj:"+src, id, lhsRoots[x])
				}
			case *ast.Ident:
				if v, ok := p.TypesInfo.Uses[x].(*types.Var); ok && v.Parent() == scope && s.mutable[v] {
					add("glob:"+v.Name(), fmt.Sprintf("vsync.GID(%q)", p.Name+"."+v.Name()), lhsRoots[x])
				}
			case *ast.CallExpr:
				if id, ok := x.Fun.(*ast.Ident); ok && (id.Name == "delete" || id.Name == "append") && len(x.Args) > 0 {
					if id.Name == "delete" {
						ast.Inspect(x.Args[0], func(m ast.Node) bool {
							if m != nil {
								lhsRoots[m] = true
							}
							return true
						})
					}
				}
			}
			return true
		})
	}
	var out []hit
	for _, k := range order {
		out = append(out, *found[k])
	}
	return out
}

func (s *schedImpl) accessStmts(p *packages.Package, hits []hit, pos token.Pos) []ast.Stmt {
	var out []ast.Stmt
	position := p.Fset.Position(pos)
	site := fmt.Sprintf("%s:%d", filepath.Base(position.Filename), position.Line)
	for _, h := range hits {
		src := fmt.Sprintf("vsync.Access(%s, %v, %q)", h.expr, h.write, site)
		e, err := parseExpr(src)
		if err != nil {
			fail("cannot build access call %s: %v", src, err)
		}
		out = append(out, &ast.ExprStmt{X: e})
		s.accesses++
	}
	return out
}

func parseExpr(src string) (ast.Expr, error) {
	return parserParseExpr(src)
}

// instrument rewrites one file; returns whether it changed.
func (s *schedImpl) instrument(p *packages.Package, f *ast.File) bool {
	changed := false
	// 1. import "sync" -> the shim under the same name
	for _, imp := range f.Imports {
		if imp.Path.Value == `"sync"` {
			imp.Path.Value = strconv.Quote(vsyncPath)
			imp.Name = ast.NewIdent("sync")
			changed = true
			s.syncFiles++
		}
	}
	// 2. accesses: walk every block and case clause
	needImport := false
	var doList func(list []ast.Stmt) []ast.Stmt
	doList = func(list []ast.Stmt) []ast.Stmt {
		var out []ast.Stmt
		for _, st := range list {
			var hits []hit
			switch x := st.(type) {
			case *ast.AssignStmt:
				nodes := []ast.Node{}
				for _, e := range x.Lhs {
					nodes = append(nodes, e)
				}
				for _, e := range x.Rhs {
					nodes = append(nodes, e)
				}
				var lhs []ast.Expr
				if x.Tok != token.DEFINE {
					lhs = x.Lhs
				}
				hits = s.stmtHits(p, nodes, lhs)
			case *ast.IncDecStmt:
				hits = s.stmtHits(p, []ast.Node{x.X}, []ast.Expr{x.X})
			case *ast.ExprStmt:
				hits = s.stmtHits(p, []ast.Node{x.X}, nil)
			case *ast.ReturnStmt:
				var nodes []ast.Node
				for _, e := range x.Results {
					nodes = append(nodes, e)
				}
				hits = s.stmtHits(p, nodes, nil)
			case *ast.DeclStmt:
				hits = s.stmtHits(p, []ast.Node{x.Decl}, nil)
			case *ast.IfStmt:
				hits = s.stmtHits(p, []ast.Node{x.Init, x.Cond}, nil)
			case *ast.ForStmt:
				hits = s.stmtHits(p, []ast.Node{x.Init, x.Cond, x.Post}, nil)
			case *ast.RangeStmt:
				hits = s.stmtHits(p, []ast.Node{x.X}, nil)
			case *ast.SwitchStmt:
				hits = s.stmtHits(p, []ast.Node{x.Init, x.Tag}, nil)
			case *ast.DeferStmt, *ast.GoStmt:
				// not instrumented (the deferred unlocks are the mutex's own scheduling points)
			}
			if len(hits) > 0 {
				out = append(out, s.accessStmts(p, hits, st.Pos())...)
				needImport = true
				changed = true
			}
			out = append(out, st)
		}
		return out
	}
	ast.Inspect(f, func(n ast.Node) bool {
		switch x := n.(type) {
		case *ast.BlockStmt:
			x.List = doList(x.List)
		case *ast.CaseClause:
			x.Body = doList(x.Body)
		case *ast.CommClause:
			x.Body = doList(x.Body)
		}
		return true
	})
	// loops whose body was instrumented: a `for cond` re-evaluates cond each round; the access in
	// front of the loop plus the accesses inside the body are what the explorer sees.
	if needImport {
		astutil.AddNamedImport(p.Fset, f, "vsync", vsyncPath)
	}
	// 3. reset functions for mutable globals with initialisers, emitted into the declaring file
	for _, d := range f.Decls {
		gd, ok := d.(*ast.GenDecl)
		if !ok || gd.Tok != token.VAR {
			continue
		}
		for _, spec := range gd.Specs {
			vs := spec.(*ast.ValueSpec)
			for i, name := range vs.Names {
				v, ok := p.TypesInfo.Defs[name].(*types.Var)
				if !ok || name.Name == "_" {
					continue
				}
				if !s.mutable[v] && !isSyncType(v.Type()) {
					continue
				}
				fn := "verifReset_" + name.Name
				var body string
				if i < len(vs.Values) && len(vs.Values) == len(vs.Names) {
					body = name.Name + " = " + exprString(p.Fset, vs.Values[i])
				} else {
					body = "vsync.Zero(&" + name.Name + ")"
					astutil.AddNamedImport(p.Fset, f, "vsync", vsyncPath)
				}
				decl, err := parserParseFuncDecl("func " + fn + "() { " + body + " }")
				if err != nil {
					fail("reset function for %s: %v", name.Name, err)
				}
				f.Decls = append(f.Decls, decl)
				s.resetFns = append(s.resetFns, fn)
				changed = true
			}
		}
	}
	return changed
}

func (s *schedImpl) resetSource(p *packages.Package) string {
	var b bytes.Buffer
	fmt.Fprintf(&b, "package %s\n\n// VerifResetGlobals restores every mutable package-level variable (generated).\nfunc VerifResetGlobals() {\n", p.Name)
	sort.Strings(s.resetFns)
	for _, fn := range s.resetFns {
		fmt.Fprintf(&b, "\t%s()\n", fn)
	}
	b.WriteString("}\n")
	src, err := format.Source(b.Bytes())
	if err != nil {
		fail("reset source: %v", err)
	}
	return string(src)
}

func (s *schedImpl) summary() interface{} {
	var g []string
	for n, f := range s.guarded {
		g = append(g, n.Obj().Name()+"."+f)
	}
	sort.Strings(g)
	var m []string
	for v := range s.mutable {
		m = append(m, v.Name())
	}
	sort.Strings(m)
	sort.Strings(s.immutable)
	return map[string]interface{}{"mutex_bearing_structs": g, "mutable_globals": m, "immutable_globals": strings.Join(s.immutable, " "), "access_calls_inserted": s.accesses, "files_with_sync_rewritten": s.syncFiles, "reset_functions": s.resetFns}
}
