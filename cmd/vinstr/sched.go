package main

import (
	"go/ast"

	"golang.org/x/tools/go/packages"
)

// schedInfo is filled in by the scheduler instrumentation (sched_impl.go).
type schedInfo struct {
	impl *schedImpl
}

func analyseSched(p *packages.Package) *schedInfo {
	sc := &schedInfo{impl: analyse(p)}
	sc.impl.collectWrites(p)
	return sc
}

func instrumentSched(p *packages.Package, f *ast.File, sc *schedInfo) bool {
	return sc.impl.instrument(p, f)
}

func (sc *schedInfo) resetSource(p *packages.Package) string { return sc.impl.resetSource(p) }
func (sc *schedInfo) summary() interface{}                  { return sc.impl.summary() }
