package main

import (
	"fmt"
	"os"

	"verif/internal/doc"
	"verif/internal/drv"
)

func main() {
	switch os.Args[1] {
	case "pool":
		for _, b := range doc.Pool() {
			d := doc.Assemble(doc.Closure([]doc.Block{b}))
			t := doc.Text(d)
			o := drv.RunMem("root.jst", t, drv.Options{})
			fmt.Printf("%-10s %s\n", b.Name, o.Short())
			if !o.OK() || len(os.Args) > 2 {
				fmt.Println(t)
				if len(os.Args) > 2 {
					fmt.Println(o.JSON)
				}
			}
		}
	case "file":
		b, _ := os.ReadFile(os.Args[2])
		o := drv.RunMem("root.jst", string(b), drv.Options{})
		fmt.Println(o.Short())
		fmt.Println(o.JSON)
	case "text":
		o := drv.RunMem("root.jst", os.Args[2], drv.Options{})
		fmt.Println(o.Short())
		fmt.Println(o.JSON)
	}
}
