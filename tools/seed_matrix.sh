#!/bin/sh
# tools/seed_matrix.sh : every seeded change against its own property's quick check (and the extra checks named in tools/seed_extra.txt)
cd /verif
for d in seeded/C*; do
  id=$(basename $d)
  extra=$(grep "^$id " tools/seed_extra.txt 2>/dev/null | cut -d' ' -f2-)
  timeout 1800 tools/try_seed.sh $id $id $extra 2>&1 | tail -n +1
done
