#!/bin/sh
# tools/take_seed3.sh <ID> [checks...] : copy a round-10 seed from /tmp/seedout10-<ID>, confirm it in a scratch worktree,
# run quick checks against it in another scratch worktree (never in /repo)
ID=$1; shift
SRC=/tmp/seedout10-$ID; DST=/verif/seeded10/$ID
[ -f $DST/patch.diff ] || { mkdir -p $DST && cp $SRC/patch.diff $SRC/demo_test.go $SRC/notes.md $DST/ 2>/dev/null; }
sh /verif/tools/confirm_seed.sh $ID $DST HEAD > /tmp/confirm10-$ID.json 2>&1; echo "confirm rc=$? $(tail -n 1 /tmp/confirm10-$ID.json)"
[ $# -gt 0 ] && sh /verif/tools/seed_wt.sh seeded10 $ID "$@"
