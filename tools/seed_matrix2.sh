#!/bin/sh
# tools/seed_matrix2.sh : every round-2 seeded change against its own property's quick check
cd /verif
for d in seeded2/C*; do
  id=$(basename $d)
  SEEDDIR=seeded2 timeout 1800 tools/try_seed.sh $id $id 2>&1 | grep "^seed="
done
