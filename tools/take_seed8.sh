#!/bin/sh
# tools/take_seed3.sh <ID> [checks...] : copy a round-8 seed from /tmp/seedout8-<ID>, confirm it in a scratch worktree,
# run quick checks against it in another scratch worktree (never in /repo)
ID=$1; shift
SRC=/tmp/seedout8-$ID; DST=/verif/seeded8/$ID
[ -f $DST/patch.diff ] || { mkdir -p $DST && cp $SRC/patch.diff $SRC/demo_test.go $SRC/notes.md $DST/ 2>/dev/null; }
sh /verif/tools/confirm_seed.sh $ID $DST HEAD > /tmp/confirm8-$ID.json 2>&1; echo "confirm rc=$? $(tail -n 1 /tmp/confirm8-$ID.json)"
[ $# -gt 0 ] && sh /verif/tools/seed_wt.sh seeded8 $ID "$@"
