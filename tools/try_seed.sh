#!/bin/sh
# tools/try_seed.sh <seed-dir> <check-id>... : apply a seeded change to /repo, run the quick checks, revert.
SEED=$1; shift
cd /repo || exit 2
if [ -n "$(git status --porcelain)" ]; then echo "repo not clean"; exit 2; fi
git apply --3way /verif/${SEEDDIR:-seeded}/$SEED/patch.diff >/dev/null 2>&1 || git apply /verif/${SEEDDIR:-seeded}/$SEED/patch.diff || { echo "patch does not apply"; git reset -q --hard HEAD; exit 2; }
git reset -q
cd /verif
for id in "$@"; do
  ./run $id quick > /tmp/try-$SEED-$id.log 2>&1; rc=$?
  echo "seed=$SEED check=$id rc=$rc $(grep -c '^VIOLATION' /tmp/try-$SEED-$id.log) violation line(s): $(grep -m1 -A2 '^VIOLATION' /tmp/try-$SEED-$id.log | tail -2 | tr '\n' ' ' | cut -c1-300)"
done
git -C /repo checkout -- . ; git -C /repo status --porcelain
