#!/bin/sh
# tools/confirm_seed.sh <ID> <dir-with-patch.diff-and-demo_test.go> [base-commit]
# Confirms a seeded change in a scratch worktree: applies, builds, runs the suite (must pass), runs the demo
# (must fail), reverts, runs the demo (must pass). Prints a JSON line and removes the worktree.
ID=$1; SRC=$2; BASE=${3:-HEAD}
export GOFLAGS=-mod=mod GOPROXY=off GOSUMDB=off GOTOOLCHAIN=local
WT=$(mktemp -d /tmp/confirm-$ID-XXXX); rmdir $WT
git -C /repo worktree add -q --detach $WT $BASE || exit 2
cleanup() { git -C /repo worktree remove --force $WT >/dev/null 2>&1; rm -rf $WT; }
trap cleanup EXIT
cd $WT || exit 2
if ! git apply --3way $SRC/patch.diff 2>/tmp/confirm-$ID.err && ! git apply $SRC/patch.diff 2>>/tmp/confirm-$ID.err; then echo "{\"id\":\"$ID\",\"applies\":false}"; cat /tmp/confirm-$ID.err; exit 1; fi
git reset -q
mkdir -p _seed_demo && cp $SRC/demo_test.go _seed_demo/demo_test.go
go build ./... >/dev/null 2>&1; B=$?
go test -vet=off -count=1 ./... >/tmp/confirm-$ID.suite 2>&1; S=$?
RACE=""; grep -q "race" $SRC/meta.json $SRC/notes.md 2>/dev/null && grep -qi "\-race" $SRC/notes.md 2>/dev/null && RACE="-race"
go test $RACE -vet=off -count=1 ./_seed_demo/ >/tmp/confirm-$ID.demo1 2>&1; D1=$?
git checkout -q -- . 
go test $RACE -vet=off -count=1 ./_seed_demo/ >/tmp/confirm-$ID.demo0 2>&1; D0=$?
echo "{\"id\":\"$ID\",\"applies\":true,\"build_rc\":$B,\"suite_rc_with_change\":$S,\"demo_rc_with_change\":$D1,\"demo_rc_without_change\":$D0,\"base\":\"$(git -C /repo rev-parse --short $BASE)\",\"race\":\"$RACE\"}"
[ $B -eq 0 ] && [ $S -eq 0 ] && [ $D1 -ne 0 ] && [ $D0 -eq 0 ]
