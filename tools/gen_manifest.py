#!/usr/bin/env python3
"""Regenerates MANIFEST.json from the table below (one entry per claimed property)."""
import json, subprocess
props=[json.loads(l) for l in open('/verif/properties.jsonl')]
hooks=subprocess.run("git -C /repo log --format=%h --grep='^verif hooks' --reverse",shell=True,capture_output=True,text=True).stdout.split()
T_MC="model checking of the implementation: "
CHECKS={
 "C14":dict(engine="E-SCAN",
   text="Complete exploration of the scanner's reachable abstract state graph (real Scanner.Next, per-byte hook) x every alphabet token (all 256 bytes + atomic body/parameter/keyword tokens); every error-free run is checked against the lexical invariants and an independent trivia skipper whose memory is part of the state key (product with the monitor); the abstraction is validated by re-running every token from a second representative of every state.",
   ref="DESIGN.md §4 E-SCAN, §5 C14",
   note="Trusted: Go runtime, the pinned schema library as the delimiter of schema/enum bodies (bodies are atomic tokens; its look-ahead past a body is outside the scanner state and is reported separately). Partial parameter text is abstracted to the parameter predicates it can still reach.",
   technique=T_MC+"explicit-state BFS over the hooked real scanner, state-key soundness cross-check"),
 "C05":dict(engine="E-DOC",
   text="Bounded-exhaustive: every closed selection of <=2 (quick) / <=3 (thorough) blocks of a 28-block pool covering all directive kinds, times every single meaning-preserving rewrite at every eligible position (and every rewrite kind everywhere at once in the thorough tier); oracle = same verdict and byte-identical JSON as the canonical rendering, both produced by the same build.",
   ref="DESIGN.md §5 C05",
   note="Bound: pool blocks, <=3 blocks per document, single rewrites (+ all-positions rewrites). Free text is left alone as the property says. Crashing runs are left to C01.",
   technique=T_MC+"bounded-exhaustive enumeration of documents x rewrites (metamorphic oracle), sharded over worker processes"),
 "C10":dict(engine="E-DOC",
   text="Bounded-exhaustive: every closed selection of <=2 (quick) / <=3 (thorough) pool blocks with <=5 / <=6 top-level declarations (self-delimiting rendering), ALL permutations of the declarations; oracle = verdict invariant and every catalog entry byte-identical (collections compared by key).",
   ref="DESIGN.md §5 C10",
   note="Bound: pool blocks (reference chains type->type->enum, allOf chains of depth 2, tags and macros used before definition), <=6 declarations. One open finding (allOf ancestor in usedUserTypes, pinned both ways by the repository's own fixtures) is listed in known_findings.jsonl by a signature that matches only that pattern.",
   technique=T_MC+"bounded-exhaustive enumeration of documents x all permutations (metamorphic oracle)"),
 "C20":dict(engine="E-DOC",
   text="Bounded-exhaustive: every accepted closed selection of <=2 / <=3 pool blocks x 11 fresh declarations x every insertion point, and deletion of every unreferenced declaration; oracle = accepted, and the keyed entry maps differ by exactly the new/removed entries (tag back-reference lists compared modulo the added/removed interaction id).",
   ref="DESIGN.md §5 C20", note="Bound: pool blocks and the 11 fresh declarations. Crashing runs are left to C01.",
   technique=T_MC+"bounded-exhaustive enumeration of documents x insertions/deletions (differential oracle)"),
 "C07":dict(engine="E-DOC",
   text="Bounded-exhaustive: every PASTE host x every macro body admitted there x definition before/after use x nesting depth 1..3 x explicit/implicit host context x pasted once/twice, pool documents with macros, and ALL paste graphs over <=4 macros (2^16 edge sets) x definition order x used/unused; oracle = accepted => inlined document accepted with byte-identical JSON, unused macro contributes nothing, every cyclic / undefined / duplicate case rejected without crash (a dying worker process is a violation).",
   ref="DESIGN.md §5 C07", note="Bound: <=4 macros in a graph, nesting depth <=3, body alphabet of the hosts. The converse (inlining accepted => macro form accepted) is not stated by the property and only counted.",
   technique=T_MC+"bounded-exhaustive enumeration of paste graphs and paste placements (reference inliner as the model), crash-isolated workers"),
 "C08":dict(engine="E-DOC",
   text="Bounded-exhaustive: every closed selection of <=2 / <=3 pool blocks x every contiguous run of complete top-level declarations and of complete children of every implicitly nesting directive moved into included files (plain, sub-directory with same-named decoys, nested, the same INCLUDE parameter in two directories naming different files, two files from one place, one file twice, empty file); ALL include-name strings of length <=6 / <=7 over {. / \\ a} (validator vs the property's sentence, end to end with canary files outside the project directory); all include target states and cycles of length 1..3 at five placements.",
   ref="DESIGN.md §5 C08", note="File access outside the project is observed through canary files, not through an I/O shim; an unreadable target cannot be produced as root. The validator rejecting more names than the sentence requires is not a violation.",
   technique=T_MC+"bounded-exhaustive enumeration of file splittings, name strings and file-system states on a scratch directory tree"),
 "C18":dict(engine="E-DOC",
   text="Bounded-exhaustive: {no ban, all 30 single bans, all pairs of the six structural kinds (thorough: all 435 pairs)} x {every closed selection of <=2 pool blocks written directly and with its last declaration in an included file, INCLUDE of a missing file}; oracle from the statement: occurrence (direct / live PASTE / included) => rejected, 'not allowed', located inside an occurrence, named file untouched; no occurrence => verdict, diagnostic and JSON identical to the run without the option.",
   ref="DESIGN.md §5 C18", note="A banned kind that occurs only inside a never-pasted macro body is not judged. 'File untouched' is observed by naming a missing file (a library that looks first reports a different diagnostic).",
   technique=T_MC+"bounded-exhaustive enumeration of configurations x documents (reference occurrence model)"),
 "C11":dict(engine="E-DOC",
   text="Bounded-exhaustive single-fault injection: every accepted closed selection of <=2 / <=3 pool blocks x every applicable fault of every kind named by the property at every position x delivery {direct, PASTE, INCLUDE}; oracle: rejected and the diagnostic lies inside the source span (in the right file) of a directive that takes part in the fault.",
   ref="DESIGN.md §5 C11", note="Faults inside never-pasted macro bodies are not judged; for PASTE delivery every PASTE on the way to the faulty macro counts as taking part.",
   technique=T_MC+"exhaustive single-fault injection over enumerated documents (fault_enumeration style, decided exhaustively)"),
 "C17":dict(engine="E-STR",
   text="Exhaustive over strings: ALL values of length 1..4 / 1..5 over an 11-character stress alphabet, quoted and (where possible) bare, in 7 parameter hosts read back from the catalog JSON; ALL malformed forms (unterminated quote, backslash before 10 other characters at every position) must be rejected at that byte; the unescape function against the reference for all strings up to length 6 / 7.",
   ref="DESIGN.md §5 C17", note="Path hosts may reject a value for reasons of their own ({} parameters); that is counted, not judged.",
   technique=T_MC+"exhaustive enumeration of all strings up to a length bound, end to end and through a hooked function (reference model written from the property)"),
 "C15":dict(engine="E-STR",
   text="Exhaustive over texts: ALL descriptions of 1..3 / 1..4 lines over a 13-line alphabet x 3 line ends x 4 hosts x bare / parenthesised x 3 base indentations against the reference normalisation, bare = parenthesised, blank rejected, re-feeding the catalog text gives itself; ALL annotation texts of length 0..4 / 0..5 over 7 characters on 6 directive kinds in both spellings against the reference collapse.",
   ref="DESIGN.md §5 C15", note="Not judged (left open by the sentence): whitespace-only lines inside a text, trailing blanks of the last line, lines a bare spelling cannot express.",
   technique=T_MC+"exhaustive enumeration of all texts up to a bound over a line/character alphabet (reference model written from the property)"),
 "C19":dict(engine="E-STR",
   text="Exhaustive over strings: ALL first segments of length 1..5 / 1..6 over 9 characters through the automatic tag-name function with a single-pass injectivity map (decides the for-all-pairs statement) and end to end for length <= 3; exhaustive product of Tags placements (URL level x two methods x protocol x parentheses x hoisted path-bearing method x declaration order x undeclared) against the reference rule; mutual tag/interaction references and titles.",
   ref="DESIGN.md §5 C19", note="Documents the library rejects for other reasons (URL-level Tags next to Protocol) are counted, not judged.",
   technique=T_MC+"exhaustive enumeration of strings (injectivity by one pass over the whole set) and of a product of document shapes against a reference rule"),
 "C13":dict(engine="E-DOC",
   text="Bounded-exhaustive: ALL ordered selections of <=2 / <=3 paths from 7 templates x 3 placements of the Path directive x every subset of declared parameters x inline / referenced body, against the reference binding (expected verdict and expected pathVariables of every interaction); 17 faulty variants must be rejected; the splitter against the reference for ALL strings of length <= 7 / 8 over {/ { } a}.",
   ref="DESIGN.md §5 C13", note="Bound: the 7 path templates (depth <= 4, two parameter names).",
   technique=T_MC+"bounded-exhaustive enumeration of path trees and declarations against a reference binding; exhaustive strings for the splitter"),
 "C06":dict(engine="E-CTX",
   text="Complete exploration of the context-resolution state graph: every reachable configuration of the reference resolver (stack of open directives with explicit flags + pending directive; 343k states) x every token (29 directive kinds, path-less and path-bearing methods, parentheses): each transition runs the real scanner + scanProject on the rendered sequence and compares the directive forest, the kind of rejection and the position of the incorrect-context diagnostic with the reference resolver written from the property's sentence; second phase: every single-directive (thorough: <=2) macro body pasted at the representative of every state, forest after paste expansion vs reference resolution of the inlined sequence.",
   ref="DESIGN.md §4 E-CTX, §5 C06",
   note="Inputs of unbounded length are covered because the state space is finite and explored completely. Trusted: the library's public admissibility predicates as the table. '(' with no pending directive is outside the sentence (C01).",
   technique=T_MC+"explicit-state BFS over the reference resolver's state graph with every transition replayed against the real scan phase (traces validated against the implementation)"),
 "C12":dict(engine="E-DOC",
   text="Bounded-exhaustive: ALL inheritance graphs over 2..3 / 2..4 object types (ordered base lists of 0..2 bases each: chains, several bases, shared bases, diamonds, cycles) x 3 own-property patterns per type x ALL declaration orders x 8 hosts of a further inheriting schema (request, response, headers, query, nested property, nested property of a base whose heir is declared first / last); in every accepted document every property list must equal the reference inheritance computed from the graph, base types stay as declared; 11 negative cases rejected.",
   ref="DESIGN.md §5 C12", note="Documents rejected by the schema library (same key through two bases, cycles) are counted, not judged: the property is about accepted documents.",
   technique=T_MC+"bounded-exhaustive enumeration of inheritance graphs x declaration orders x hosts against a reference inheritance function"),
 "C04":dict(engine="E-DOC",
   text="Bounded-exhaustive abstract API models against a reference catalog computed from the model: the product of request form (10) x response list of length 0..2 over 9 forms (91) x query (4) x annotation x description x 5 placements for a focus HTTP method (deviation-bounded), all 64 JSON-RPC method shapes, all INFO subsets, SERVER, TYPE of every notation and body of a 10-body alphabet, ENUM, each at 3 positions; thorough also under CRLF, tabs and trailing comments. Oracle: every declared field equal, collections exactly the expected keys in source order, arrays of exactly the expected length, undeclared fields absent.",
   ref="DESIGN.md §5 C04", note="Schema content is compared by a digest computed from the model for the body alphabet; the schema library is trusted for the rest of the AST. Unknown additional scalar fields are ignored (projection). Tags are C19's, path variables C13's.",
   technique=T_MC+"bounded-exhaustive enumeration of abstract models against a reference catalog (reference model written from the property, never from the code)"),
 "C01":dict(engine="E-STREAMS",
   text="The whole pipeline is run, in crash-isolated worker processes with a hang watchdog, on the union of complete / bounded-exhaustive streams: every reachable scanner state's representative x every alphabet token (complete E-SCAN graph, ~16k states x 339 tokens), every reachable context-resolution state's representative (~343k), all sequences of <=2 (thorough 3) directive variants, all paste graphs over <=3 (4) macros, include placements x trailing junk x target states x contents and all include graphs over 3 files, the fixture corpus with its complete one-line-edit neighbourhood, pool documents under every single ban / all bans, names over a stress alphabet. Oracle: no panic, no worker death (stack overflow, fatal error), no hang, result is a catalog or a JApiError, no Go runtime fault text in a diagnostic, and (through a build-time overlay of the schema library's panic handler) no runtime fault recovered inside the dependency.",
   ref="DESIGN.md §5 C01", note="Hang limit 90 s per case. The S x K product is approximated by S x tokens and K representatives separately (both graphs complete). One open finding: a runtime fault inside the pinned schema library (known_findings.jsonl).",
   technique=T_MC+"exhaustive exploration of state-graph representatives x tokens plus bounded-exhaustive input/fault streams, crash-isolated workers, fault attribution by overlay"),
 "C09":dict(engine="E-STREAMS",
   text="Every accepted run of the shared streams (pool, corpus + one-line-edit neighbourhood, context-state representatives, directive-variant sequences, paste graphs, include scenarios, option sets; thorough: the scanner-state x token product too) and of an exhaustive name sweep (all strings of length <=2 / <=3 over 11 stress characters incl. invalid UTF-8 in 14 name-bearing positions, JSON-RPC id collisions) is checked on the bytes: valid UTF-8 JSON, no repeated key in any object (order-preserving reader), indented = compact, key = id = protocol+method+path, mutual tag/interaction references, used types and enums exist, bodies present with format matching notation, Title() = info.title.",
   ref="DESIGN.md §5 C09", note="Only accepted runs are judged; the streams are regenerated by this check (shared code, not shared results).",
   technique=T_MC+"bounded-exhaustive input streams with a structural oracle on the serialised bytes"),
 "C02":dict(engine="E-STREAMS",
   text="Every rejected run of the shared streams (corpus one-line-edit neighbourhood, context-state representatives, directive-variant sequences under LF / CRLF / CR, paste graphs, include scenarios and all include graphs over 3 files, option sets, names; thorough: scanner-state x token product) and of dedicated include structures (6 structures x 7 fault kinds x every faulty file x 3 line-end conventions) is checked: index within the located file, line and quote recomputed from the source by the reference (strict on single-convention files), include trace present for faults outside the root, first entry = located file and line, every further entry = the line where the INCLUDE of the previous entry's file really is, last entry = root.",
   ref="DESIGN.md §5 C02", note="'Inside the span of the directive at fault' is decided by C11 where the culprit is known. A message that wraps another diagnostic with its trace (PASTE of a faulty macro) is not judged. One open finding pinned by the repository's own fixture (tracer cached per including file).",
   technique=T_MC+"bounded-exhaustive rejected-input streams and include structures with a reference recomputation of line / quote / trace"),
 "C03":dict(engine="E-ENV",
   text="Environment-answer exploration on an instrumented build: a typed source instrumenter (go/packages) finds every range over a map in the library's current tree (4 sites today) and routes it through a shim whose iteration order the explorer chooses; for multi-fault / multi-entry documents and every pool block ALL permutations at every choice point (full product up to 20000 / 200000 executions per document, else <=2 deviations) must give identical verdict, message, index, line, trace and JSON; replay of a choice vector must reproduce its choice trace. Plus: every project of a 34-project set twice in one process, in two fresh processes, and every ordered pair (A then B in one process vs B in a fresh process).",
   ref="DESIGN.md §4 E-ENV, §5 C03", note="Map iterations inside the pinned schema library are not instrumented (assumption listed in the evidence). Concurrent interference is C16's H3. The Go runtime's own hash seeds cannot be enumerated: the instrumented ranges replace them.",
   technique=T_MC+"depth-first enumeration of environment answers (map-iteration orders) on a source-instrumented build; exhaustive ordered pairs of projects against fresh-process references"),
 "C16":dict(engine="E-SCHED",
   text="Stateless model checking of the real code under a controlled cooperative scheduler: a typed source instrumenter rewrites import \"sync\" into a scheduler-aware shim (Mutex, RWMutex, Once), inserts an access hook before every statement touching the guarded fields of a mutex-bearing struct or a mutable package-level variable, and generates VerifResetGlobals; DFS over schedules with iterative preemption bounding (0,1,2; thorough 3) with a vector-clock happens-before race monitor, deadlock detection, replay-determinism check, and a brute-force linearizability oracle against a sequential ordered map. 778 harnesses: every 2-writer x 1-reader scenario on 6 generated collection types (keys forced to collide, empty / pre-filled), first calls to the keyword table, pairs of whole parses, one catalog read by 2-3 threads. Complement: the same bodies free-running under the Go race detector.",
   ref="DESIGN.md §4 E-SCHED, §5 C16", note="Bounds: <=3 threads, one operation per thread in H1, preemption bound 2 (3). Weak-memory effects are not modelled (the race monitor reports the enabling race). The dependency's internal synchronisation is only seen by the free-running race-detector pass, which is a sample, reported separately in the evidence.",
   technique=T_MC+"stateless exploration of thread interleavings under a controlled scheduler with iterative preemption bounding (CHESS style), happens-before race monitor, linearizability oracle"),
}

# session-3 extensions, appended to the level text of the affected checks
EXT={
 "C14":" A prefix that is rejected only at its end (open block comment, open regex, body still pending) is a state and is expanded like any other; the regex oracle's memory (escape pending) is part of the key.",
 "C05":" The same rewrites, plus quoting of every bare parameter and parenthesising of every implicitly nesting directive, are applied to every fixture of the repository's corpus whose structure can be recovered from the real lexeme stream and scan-phase forest (683 of 886).",
 "C12":" Hosts: request / response body and headers, query, path, JSON-RPC params and result, nested object of a type, each as 1st / 2nd / 3rd response and 1st / 2nd / 3rd interaction among fillers that lack or have the same feature; a fourth own-property pattern with a key-shortcut property.",
 "C13":" A referenced Path body is followed through alias chains of 1..3 references with the types declared before or after the use.",
 "C15":" For texts of at most two lines every kind of line that may follow the description in its host (sibling, directive of an enclosing block, bare keywords of every length, end of input).",
 "C19":" Tags lists are all sequences of length <= 3 over two declared names (repetitions included), with an undeclared name at the front, in the middle or at the end.",
 "C04":" Tags dimension: the focus method with its own Tags, under URL-level Tags, or both (own Tags win).",
 "C08":" A JSIGHT line at every position of an included file made of <= 3 declarations / nested INCLUDEs, and in the nested file.",
 "C02":" Faults found only when a schema is loaded (incompatible rule, unknown rule, duplicate key) injected into every schema-bearing directive of the pool documents in both declaration orders, delivered directly, through PASTE and through INCLUDE: the diagnostic must lie inside that directive, in the file that holds it.",
 "C03":" The order exploration also runs over every single-file case of the shared streams (pool documents in several orders, all sequences of <= 2 directive variants, paste graphs, and documents with 2-3 simultaneous instances of every fault kind about named things).",
 "C09":" Pool documents also in reversed and rotated declaration order.",
 "C16":" Every write to a struct field reached through a pointer and every read of a field some statement writes is reported to the happens-before monitor (monitor-only hooks), so a read-only method that caches into its receiver is found in the first schedule; H4 meets the catalog's first serialisation under concurrency.",
}
EXT2={
 "C01":" File-system answers of the library's own os calls explored through a shim (every single departure; thorough: pairs) over seven include structures; the post-scan single faults of C11 / C02 as a crash-only stream, each top-level declaration also alone in a small file of its own.",
 "C02":" Every assignment of a line-end convention to each file of the include structures.",
 "C03":" All sequences of three runs over 4 projects x 6 option lists with the option values shared between the runs against freshly made ones; every stream document compiled twice from ONE file object (same result, input bytes intact).",
 "C04":" Query: example {absent, present} x format {absent, htmlFormEncoded, noFormat}; two responses with one code; macro-factored renderings of the pool documents (every sub-tree written once as a macro body and pasted where it stood; every child of a URL block pasted into the block and into its twin on another path): accepted, byte-identical catalog.",
 "C06":" The forest the library builds after macro expansion is compared on every accepted transition; pass 2 expands every state again from a history-rich representative (through its deepest predecessors), pass 3 appends ')' and then every token to the history-rich representative of every state with an open parenthesis.",
 "C07":" Macros without parentheses (standing last), every host body as a never-pasted macro, 40 fixtures of the corpus inlined textually; thorough: paste graphs over 5 macros with <= 6 edges.",
 "C08":" Every run of top-level declarations of every recoverable fixture moved into an included file; file-system answers explored through the shim (an unusable target is rejected, an empty answer equals an empty file, every path touched lies inside the project directory - from the call log).",
 "C10":" All permutations (<= 5 / 6 declarations; all transpositions beyond) of the top-level declarations of every recoverable fixture.",
 "C11":" The second singleton also as a different valid instance at a non-adjacent place; every parameter of every path renamed; the duplicate URL also bare; the same injections in the reversed declaration order.",
 "C13":" Parameter schemas {integer / string literal, reference to an integer / string type, float with a type rule}.",
 "C15":" Lines of blanks only, judged by the oracles that need no normal form.",
 "C16":" The pinned schema library's own synchronisation (RWMutexes, Once, sync.Pools as deterministic LIFO free lists with the Put -> Get edge) runs under the same scheduler; H3 also with two documents that walk through most of the library.",
 "C17":" Every value read twice from one file object (second read equal, input bytes intact).",
 "C18":" With INCLUDE banned the file-system call log of the library is empty (shim).",
 "C19":" Undeclared names that are automatic tags of other interactions; methods on the URL's own path outside the block.",
 "C20":" Fresh methods sharing parameter names with existing paths or using an existing type through Path; every fresh declaration at every declaration boundary of every recoverable fixture, deletion of every unreferenced named declaration there.",
}
REFCAT=" E-REFCAT (reference compiler: real lexemes -> reference resolver -> PASTE substituted and resolved again -> what the sentences say the catalog holds) over every single-file fixture, every closed pool selection"
EXT3={
 "C01":" Shared stream schema-rules: every example value x every set of <= 2 / 3 rules (each rule the catalog builder reads in valid, empty and wrongly shaped forms) in 8 schema positions.",
 "C02":" The schema-rules stream; late Path faults (parameter of an object type / of an undefined type) injected into every Path of the pool documents with the span oracle.",
 "C03":" The schema-rules stream under every iteration order.",
 "C04":REFCAT+" and every document the generators of C13 and C19 build: interaction ids in source order, names of servers / types / enums, info and base URLs read back, annotations. The focus method in every HTTP method kind (the other kinds against single departures); one more rendering with an empty line before every bare description.",
 "C05":" Pool block with an implicit macro holding an implicit URL block that a path-bearing method leaves.",
 "C06":REFCAT+": the scan-phase forest of the implementation equals the reference forest built from the document's own lexemes; same context rejections.",
 "C07":REFCAT+" and every generated macro document: the forest after macro expansion equals the reference forest of the PASTE-substituted token stream; undefined / duplicate / cyclic macros seen by the reference are rejected.",
 "C09":" The schema-rules stream (whatever is accepted serialises and is self-consistent).",
 "C11":REFCAT+": duplicate names and interactions seen after macro expansion are rejected. Duplicate declarations for ALL names of length <= 3 / 4 over {a _ - 1 A . % ~ e-acute} in ten name-bearing kinds (diagnostic inside one of the two declarations).",
 "C13":REFCAT+" and every document the generators of C04 and C19 build: pathVariables = the {name} segments for whose prefix some Path declares a property. A tree of five paths with two branches below one parameter: all ordered selections of 3..4 (5) x every assignment of declaring interactions.",
 "C15":" The line after a description is a minimal directive of EVERY kind (from the keyword table), kept when the document without the Description is accepted.",
 "C16":" H3': 2-3 projects handed ONE option value, processed at the same time: each result equals the result with freshly made option values.",
 "C17":" Every ASCII character (but the line ends) and one UTF-8 character for every (lead byte, second byte) pair, inside and at the start of a value, quoted and bare.",
 "C18":" An option value that served another project before (there with a further ban option): every ordered pair of the six core kinds.",
 "C19":REFCAT+" and every document the generators of C04 and C13 build: tags of every interaction, tag entries, titles. Every HTTP method kind (each once with Tags as first child, once as last).",
 "C20":" A declared tag is referred to by every interaction whose automatic tag has its name (not a deletable declaration).",
}
EXT4={
 "C01":" The INCLUDE parameter over the stress alphabet (bare, quoted) and the empty quoted string in every parameter position of every directive kind.",
 "C02":" EVERY single-fault project of C11 / C02 (all fault kinds, places and deliveries) also written with CRLF and with CR line ends under the generic location oracle.",
 "C03":" Every Tags / allOf / or list of length 2..4 over three names that repeats a name, under every iteration order.",
 "C04":" The Protocol directive first, between and after the methods.",
 "C05":" Pool block with the one-byte path '/'; end-of-line comments directly after the last byte and after a tab.",
 "C06":" ALL token sequences of length 2..3 (thorough: 4 over 18 tokens) x every contiguous run of whole directives moved into an included file: the forest and the kind of rejection are the reference resolver's on the sequence written in one file.",
 "C12":" Own-property names that differ from one another in letter case only.",
 "C13":" or rules among the parameter schemas; every parameter's entry equals the entry of the same property in a probe type written with the same object (differential), usedUserTypes of pathVariables = the types the parameters use; rule forms naming an object / array / undefined type at every position are rejected.",
 "C17":" Every run of 1..2 blanks and tabs between keyword and parameter.",
 "C18":" Every declaration in turn moved into an included file.",
 "C19":" A bare Description directly before each method's Tags.",
 "C20":" Fresh types that inherit from / refer to existing types.",
}
EXT5={
 "C10":" Rejected documents stay rejected: every single-fault document of C11 that the scan phase reads, under all orders of its top-level declarations (<= 4 declarations; all transpositions beyond).",
 "C01":" A zero byte at every subset of 1..3 of 17 places of one accepted document (LF and CRLF).",
 "C02":" The zero-byte stream; INCLUDE lines whose file name follows a block comment of several lines.",
 "C03":" Every multi-instance document also with names that differ in letter case only.",
 "C05":" The end of the input: without the final line end, then with blanks, comments and blank lines after the last byte.",
 "C07":" Macro bodies ending in an open directive pasted into a URL block, followed by one directive of each of 11 kinds and another method.",
 "C08":" A file of exactly the rejected name exists during the run.",
 "C13":" One named type as the body of several Path directives (24 orders x 81 declaration patterns).",
 "C15":" Lines starting with digits that are no response code.",
 "C18":" Every kind's keyword as a parameter value, annotation or body string (bare and quoted) with that kind banned.",
 "C20":" Fresh heirs of every object type of the pool; every selection also with its declarations in the reverse order (use before declaration) as the base document. One open finding (the allOf ancestor in usedUserTypes, the C10 finding seen from here) matched by what changes.",
}
EXT6={
 "C03":" The pair projects also without any option (twice in process, two fresh processes, process vs in-process); two regex types of one pattern.",
 "C06":" Two-level includes (root -> a -> b) at every nesting of four split points, parentheses anywhere, reduced alphabet, length 2..3.",
 "C12":" The inheriting schema of every host also with no property of its own.",
 "C13":" Prefixes that differ in letter case only (24 orders x 9 declaration patterns).",
 "C16":" H1 reader op keys-stop: an iteration its callback stops after the first element.",
 "C17":" Unterminated quotes under LF, CRLF and CR.",
 "C19":" First-segment alphabet with the digits 2 and 0 (escape look-alikes); the declared tag's annotation varies (ordinary, '/...', '@k'): a rejection the ordinary annotation does not cause is a violation.",
 "C20":" Unused macros holding declarations or pasting a fresh macro add nothing.",
}
EXT7={
 "C01":" Junk after the file name of an INCLUDE that stands in an included file (depth 2, 3).",
 "C02":" Bodies still open where the file ends, under every line-end assignment.",
 "C03":" 2..3 regex types that do not compile, referred to by one type.",
 "C04":" Headers given as a reference to an object type, in requests and responses.",
 "C09":" ALL sequences of 1..4 (5) calls over {ValidateJAPI, ToJson, ToJsonIndent, Title} on one JApi object against a fresh validated object.",
 "C12":" An array of three item schemas whose last one inherits.",
 "C14":" A parameter lexeme that begins with a quote is exactly one quoted value.",
 "C20":" Fresh methods on case-twin paths derived from the document's own parameterised paths.",
}
EXT8={
 "C16":" H3'': two projects over ONE file object (results as alone, the caller's bytes unchanged).",
 "C03":" Map ranges over interface-keyed maps explored as well; the same late path fault in 2..3 interactions; CRLF / CR documents with long descriptions compiled twice from one file object.",
 "C08":" Chains of nested includes whose file names differ in letter case, by a prefix, or by a sub-directory only.",
 "C11":" A type / an enum that only a never-pasted macro declares is undeclared.",
 "C12":" An array of arrays.",
 "C13":" A parameter declared twice by two pastes of one macro.",
 "C15":" The parentheses' own lines indented with tabs where the text is.",
 "C20":" A fresh URL that pastes a macro the document already pastes.",
}
for k,v in EXT.items():
    CHECKS[k]["text"]+=v
for k,v in EXT2.items():
    CHECKS[k]["text"]+=v
for k,v in EXT3.items():
    CHECKS[k]["text"]+=v
for k,v in EXT4.items():
    CHECKS[k]["text"]+=v
for k,v in EXT5.items():
    CHECKS[k]["text"]+=v
for k,v in EXT6.items():
    CHECKS[k]["text"]+=v
for k,v in EXT7.items():
    CHECKS[k]["text"]+=v
for k,v in EXT8.items():
    CHECKS[k]["text"]+=v
ENGINES=[
 {"name":"E-REFCAT","path":"internal/checks/refcat.go","serves_properties":[],"kind_free_text":"reference compiler (real lexemes -> reference resolver of C06 -> PASTE substitution -> expected interactions, tags, path variables, names, faults) run over fixtures, pool selections and, through a tap, the documents of the generators of C04 / C13 / C19; serves C04 C06 C07 C11 C13 C19 next to their own engines"},
 {"name":"E-SCAN","path":"internal/escan","serves_properties":["C14"],"kind_free_text":"explicit-state BFS over the real scanner.Next with a per-byte hook; abstract key cross-checked by second representatives"},
 {"name":"E-STREAMS","path":"internal/checks/streams.go","serves_properties":[],"kind_free_text":"deterministic enumerations of projects shared (as code) by the aggregating checks: scanner-state and context-state representatives (prepared once by the parent), directive-variant sequences, paste graphs, include graphs and file-system states, corpus one-line-edit neighbourhood, option sets, stress names"},
 {"name":"E-SCHED","path":"cmd/vinstr (sched mode) + shim/vsync + internal/checks/c16.go","serves_properties":[],"kind_free_text":"cooperative scheduler shim replacing sync in the library (overlay), access hooks inserted by the typed instrumenter, preemption-bounded DFS, vector-clock race monitor, linearizability oracle, free-running -race pass"},
 {"name":"E-ENV","path":"cmd/vinstr + shim/vdet + shim/vio + internal/checks/c03.go + internal/checks/iofaults.go","serves_properties":[],"kind_free_text":"typed source instrumenter writing a go build -overlay (map ranges -> explorer-chosen order) and a DFS over choice vectors with replay validation"},
 {"name":"E-CTX","path":"internal/checks/c06.go","serves_properties":[],"kind_free_text":"explicit-state BFS over the reference context resolver; every transition replayed through the real scanner + scanProject and paste expansion via verif-tagged dumps"},
 {"name":"E-STR","path":"internal/checks (c13 c15 c17 c19)","serves_properties":[],"kind_free_text":"all strings / texts up to a length bound over a stress alphabet, through hooked functions and end to end, against reference rules written from the property statements"},
 {"name":"E-DOC","path":"internal/doc + internal/checks","serves_properties":["C05"],"kind_free_text":"bounded-exhaustive document enumeration (block pool, renderer with spans) with metamorphic partners, sharded over crash-isolated worker processes (internal/fw)"},
]
m={"version":1,"setup_cmd":"./run build",
 "hooks":{"guard":"verif","enable":"go build -tags verif (./run builds cmd/vcheck with -tags verif against /repo through a replace directive, so every run rebuilds from /repo's working tree)",
   "baseline_off_cmd":"cd /repo && GOFLAGS=-mod=mod GOPROXY=off GOSUMDB=off GOTOOLCHAIN=local go test -vet=off -count=1 ./...",
   "source_commits":hooks,"add_only":True},
 "engines":ENGINES,"checks":[],"not_applicable":[],
 "notes":"All checks are bounded-exhaustive explorations written in Go under /verif (model checking of the implementation); see DESIGN.md. known_findings.jsonl lists open findings and fixed: records."}
for p in props:
    i=p['id']
    if i in CHECKS:
        c=CHECKS[i]
        m["checks"].append({"property_id":i,"quick_cmd":"./run %s quick"%i,"thorough_cmd":"./run %s thorough"%i,"evidence_file":"evidence/%s.json"%i,
          "replay_cmd_template":"./run replay {path}","engine":c["engine"],
          "level_claimed":{"category":"model_checking","text":c["text"],"design_ref":c["ref"]},"level_note":c["note"],"technique":c["technique"]})
    else:
        m["not_applicable"].append({"property_id":i,"reason":"check not built yet at this commit (work in progress; plan in DESIGN.md §5)"})
for e in ENGINES:
    e["serves_properties"]=[i for i in CHECKS if CHECKS[i]["engine"]==e["name"]]
json.dump(m,open('/verif/MANIFEST.json','w'),indent=1)
print("checks:",[c["property_id"] for c in m["checks"]])
