#!/bin/sh
# tools/take_seed2.sh <ID> [checks...] : copy a round-2 seed from /tmp/seedout2-<ID>, confirm it in a scratch worktree, run quick checks against it
ID=$1; shift
SRC=/tmp/seedout2-$ID; DST=/verif/seeded2/$ID
[ -f $DST/patch.diff ] || { mkdir -p $DST && cp $SRC/patch.diff $SRC/demo_test.go $SRC/notes.md $DST/ 2>/dev/null; }
sh /verif/tools/confirm_seed.sh $ID $DST HEAD > /tmp/confirm2-$ID.json 2>&1; echo "confirm rc=$? $(tail -n 1 /tmp/confirm2-$ID.json)"
[ $# -gt 0 ] && SEEDDIR=seeded2 sh /verif/tools/try_seed.sh $ID "$@"
