#!/bin/sh
# tools/seed_wt.sh <seeddir> <seed-id> <check-id>... : apply a seeded change in a scratch worktree of /repo (not in /repo
# itself), run the quick checks against that worktree (VERIF_REPO / VERIF_BIN), remove worktree and build output.
SD=$1; SEED=$2; shift 2
WT=/tmp/wt-$SD-$SEED; B=bin-$SD-$SEED
cd /verif || exit 2
git -C /repo worktree remove --force $WT >/dev/null 2>&1; rm -rf $WT
git -C /repo worktree add -q --detach $WT HEAD || exit 2
if ! git -C $WT apply /verif/$SD/$SEED/patch.diff 2>/dev/null && ! git -C $WT apply --3way /verif/$SD/$SEED/patch.diff 2>/dev/null; then
  echo "seed=$SD/$SEED patch does not apply"; git -C /repo worktree remove --force $WT; exit 2
fi
for id in "$@"; do
  VERIF_REPO=$WT VERIF_BIN=$B ./run $id quick > $B.$id.log 2>&1; rc=$?
  echo "seed=$SD/$SEED check=$id rc=$rc $(grep -c '^VIOLATION' $B.$id.log) violation line(s): $(grep -m1 -A2 '^VIOLATION' $B.$id.log | tail -2 | tr '\n' ' ' | cut -c1-260)"
  rm -f $B.$id.log
done
git -C /repo worktree remove --force $WT >/dev/null 2>&1; rm -rf $WT $B
