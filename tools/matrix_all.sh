#!/bin/sh
# tools/matrix_all.sh : every stored seeded change (rounds 1-11) against the quick checks named in its meta.json, each in a
# scratch worktree of /repo (never in /repo itself)
cd /verif
for sd in seeded seeded2 seeded3 seeded4 seeded5 seeded6 seeded7 seeded8 seeded9 seeded10 seeded11; do
  for d in $sd/C*; do
    id=$(basename $d)
    checks=$(python3 -c "import json;print(' '.join(json.load(open('$d/meta.json')).get('detected_by_quick_checks',['$id'])))")
    [ -n "$checks" ] && tools/seed_wt.sh $sd $id $checks
  done
done
