#!/bin/sh
# tools/thorough_sweep.sh [ids...] : the thorough tier of every check, one after the other; one summary line each
cd "$(dirname "$0")/.."
ids="$@"
[ -z "$ids" ] && ids="C01 C02 C03 C04 C06 C07 C08 C09 C10 C11 C12 C13 C14 C15 C16 C17 C18 C19 C20 C05"
./run build >/dev/null 2>&1
for id in $ids; do
  s=$(date +%s)
  out=$(./run $id thorough 2>&1); rc=$?
  e=$(date +%s)
  echo "SWEEP $id rc=$rc wall=$((e-s))s :: $(echo "$out" | grep -v WARNING | grep -v KNOWN-FINDING | tail -1)"
  echo "$out" | grep VIOLATION | head -5
done
