#!/bin/sh
# tools/take_seed3.sh <ID> [checks...] : copy a round-11 seed from /tmp/seedout11-<ID>, confirm it in a scratch worktree,
# run quick checks against it in another scratch worktree (never in /repo)
ID=$1; shift
SRC=/tmp/seedout11-$ID; DST=/verif/seeded11/$ID
[ -f $DST/patch.diff ] || { mkdir -p $DST && cp $SRC/patch.diff $SRC/demo_test.go $SRC/notes.md $DST/ 2>/dev/null; }
sh /verif/tools/confirm_seed.sh $ID $DST HEAD > /tmp/confirm11-$ID.json 2>&1; echo "confirm rc=$? $(tail -n 1 /tmp/confirm11-$ID.json)"
[ $# -gt 0 ] && sh /verif/tools/seed_wt.sh seeded11 $ID "$@"
