module verif

go 1.22.0

toolchain go1.23.5

require (
	github.com/jsightapi/jsight-api-go-library v0.0.0
	github.com/jsightapi/jsight-schema-go-library v1.0.1-0.20221003140029-c68c810f065f
)

require (
	golang.org/x/mod v0.22.0 // indirect
	golang.org/x/sync v0.10.0 // indirect
)

require (
	github.com/lucasjones/reggen v0.0.0-20200904144131-37ba4fa293bb // indirect
	golang.org/x/tools v0.29.0
)

replace github.com/jsightapi/jsight-api-go-library => /repo
